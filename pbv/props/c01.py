"""C01 - affiliations are valid distributions and equal the model's Bayes posterior.

Structural clauses decided here:
  1. R-DEP   every model's predict returns the value of the shared posterior routine; its weight argument
             comes from the stored weights only, its log-pdf argument from every component stream
             (exponent-weighted sum for the integration models); fit_predict = predict(fit(...)).
  2. R-AXIS  max-subtraction and normalising sum act on the class axis (-2) with keepdims, in the posterior
             routine and its inline-PA sibling; weights L1-normalised over the class axis; all random /
             deterministic initialisers normalise over their class axis.
  3. ORDER   weights and the boolean activity mask multiply the unnormalised posterior before the denominator
             is formed from the *same* value; the denominator is floored by a positive constant; clipping last.
  4. R-SIGN  data-dependent denominators on the E-step / initialiser paths are positive or listed as
             preconditioned by "every class has non-zero mass".
"""
from ..model import AnalysisError, Func, parse_shape_text
from ..terms import T, walk_terms
from ..absint import AV, TOP, cav, is_bot
from ..walk import (call_parts, call_arg, is_call_to, const_val, NOVAL, unwrap_gamma, mult_factors, call_paths, callee_func,
                    callee_name, ctx_tree, norm_stmt, strip_views, guard_means_given, newaxis_insertions, axis_reordering, loop_role, trailing_items)
from ..nptable import einsum_parse

D = 'pb_bss.distribution.'
MMU = D + 'mixture_model_utils::'
POSTERIOR = MMU + 'log_pdf_to_affiliation'
POSTERIOR_PA = MMU + 'log_pdf_to_affiliation_for_integration_models_with_inline_pa'

MODELS = {
    # model class -> (module, component stream fields whose parameters must reach the log-pdf argument, observation params)
    'CACGMM': ('cacgmm', ['cacg'], ['y']),
    'CWMM': ('cwmm', ['complex_watson'], ['y']),
    'CBMM': ('cbmm', ['complex_bingham'], ['y']),
    'GMM': ('gmm', ['gaussian'], ['x']),
    'VMFMM': ('vmfmm', ['vmf'], ['y']),
    'GCACGMM': ('gcacgmm', ['cacg', 'gaussian'], ['observation', 'embedding']),
    'VMFCACGMM': ('vmfcacgmm', ['cacg', 'vmf'], ['observation', 'embedding']),
}
INTEGRATION = ('GCACGMM', 'VMFCACGMM')

TRAINERS_WITH_RANDOM_INIT = [
    D + 'cacgmm::CACGMMTrainer.fit', D + 'cwmm::CWMMTrainer.fit', D + 'cbmm::CBMMTrainer.fit', D + 'gmm::GMMTrainer.fit',
    D + 'vmfmm::VMFMMTrainer.fit', D + 'gcacgmm::GCACGMMTrainer.fit', D + 'vmfcacgmm::VMFCACGMMTrainer.fit',
    'pb_bss.initializer.iid::uniform_normalized',
]


def positive_floor(t):
    """syntactic recognition of a positive floor constant: finfo(..).tiny/eps, positive literal, k * such"""
    if isinstance(t, T):
        t = strip_views(t)
        if t.op == 'const' and isinstance(t.args[0], (int, float)) and not isinstance(t.args[0], bool) and t.args[0] > 0:
            return True
        if t.op == 'attr' and t.args[1] in ('tiny', 'eps') and is_call_to(t.args[0], 'numpy.finfo'):
            return True
        if t.op == 'binop' and t.args[0] == 'Mult':
            return positive_floor(t.args[1]) and positive_floor(t.args[2])
    return False


def floored_sum(den):
    """den == maximum(sum(X, axis=a, keepdims=True), POS)  ->  (sum call, X, axis value, keepdims value, floored) or None;
    a bare sum(X, axis, keepdims) is returned with floored=False"""
    if is_call_to(den, 'numpy.sum'):
        ax = call_arg(den, 1, 'axis')
        kd = call_arg(den, 3, 'keepdims')
        return den, call_arg(den, 0, 'a'), const_val(ax) if ax is not None else None, const_val(kd) if kd is not None else False, False
    if not is_call_to(den, 'numpy.maximum', 'numpy.fmax'):
        return None
    a, b = call_arg(den, 0), call_arg(den, 1)
    for s, fl in ((a, b), (b, a)):
        if s is not None and fl is not None and is_call_to(s, 'numpy.sum') and positive_floor(fl):
            ax = call_arg(s, 1, 'axis')
            kd = call_arg(s, 3, 'keepdims')
            return s, call_arg(s, 0, 'a'), const_val(ax) if ax is not None else None, const_val(kd) if kd is not None else False, True
    return None


def class_sum_form(den):
    """den == the sum of X over ONE axis a, with that axis kept or re-inserted at position p:
         np.sum(X, axis=a, keepdims=True) | np.sum(X, axis=a)[..., None, :] | np.einsum('...kn->...n', X)[..., None, :]
    -> (X, a, p) (a, p negative = counted from the right) or None"""
    den = strip_views(den)
    ins = newaxis_insertions(den)
    inner, p = (den, None) if ins is None else (strip_views(ins[0]), ins[1])
    if p is not None and len(p) != 1:
        return None
    if is_call_to(inner, 'numpy.sum'):
        ax, kd = call_arg(inner, 1, 'axis'), call_arg(inner, 3, 'keepdims')
        a = const_val(ax) if ax is not None else None
        kd = const_val(kd) if kd is not None else False
        if not isinstance(a, int) or isinstance(a, bool):
            return None
        if kd is True and p is None:
            return call_arg(inner, 0, 'a'), a, a
        if kd is False:
            return call_arg(inner, 0, 'a'), a, (p[0] if p is not None else None)          # None: the summed axis is not put back
        return None
    if inner.op == 'mu' and inner.next is not None and is_call_to(strip_views(inner.args[0]), 'numpy.zeros', 'numpy.zeros_like'):
        # total = zeros(...); for k in range(K): total += X[..., k, :]   - the sum over one axis written as a loop
        nx = strip_views(inner.next)
        if isinstance(nx, T) and nx.op in ('iop', 'binop') and nx.args[0] == 'Add':
            for acc, x_ in ((nx.args[1], nx.args[2]), (nx.args[2], nx.args[1])):
                x0 = strip_views(x_)
                if strip_views(acc) is inner and isinstance(x0, T) and x0.op == 'sub' and x0.args[1].op == 'tuple':
                    its = x0.args[1].args[0]
                    if its and its[0].op == 'const' and its[0].args[0] is Ellipsis:
                        pos_ = [i for i, z in enumerate(its[1:]) if strip_views(z).op == 'elem']
                        rest_full = all(z.op == 'slice' and all(const_val(y) is None for y in z.args) for i, z in enumerate(its[1:]) if i not in pos_)
                        if len(pos_) == 1 and rest_full:
                            lp = strip_views(its[1:][pos_[0]]).extra
                            it_ = strip_views(lp.iter) if lp is not None and getattr(lp, 'iter', None) is not None else None
                            if it_ is not None and is_call_to(it_, 'builtin.range') and len(call_parts(it_)[1]) == 1:
                                return x0.args[0], pos_[0] - len(its[1:]), (p[0] if p is not None else None)
        return None
    if is_call_to(inner, 'numpy.einsum'):
        sub = const_val(call_arg(inner, 0))
        try:
            ins_, out = einsum_parse(sub)
        except Exception:
            return None
        if len(ins_) != 1:
            return None
        inl, outl = ins_[0].replace('...', ''), out.replace('...', '')
        removed = [c for c in inl if c not in outl]
        if len(removed) != 1 or [c for c in inl if c in outl] != list(outl):
            return None
        return call_arg(inner, 1), inl.index(removed[0]) - len(inl), (p[0] if p is not None else None)
    return None


def exp_core(t):
    """t == exp(S[, out=S]) with S == L - amax(L, axis=a, keepdims=True)  ->  (L, axis, keepdims) or None"""
    if not is_call_to(t, 'numpy.exp'):
        return None
    s = call_arg(t, 0)
    if not (isinstance(s, T) and s.op == 'binop' and s.args[0] == 'Sub'):
        return None
    l, m = s.args[1], s.args[2]
    if not is_call_to(m, 'numpy.amax', 'numpy.max', 'numpy.nanmax'):
        return None
    if call_arg(m, 0, 'a') is not l:
        return None
    ax = call_arg(m, 1, 'axis')
    kd = call_arg(m, 3, 'keepdims')
    return l, (const_val(ax) if ax is not None else None), (const_val(kd) if kd is not None else False)


def plain_log_pdf(t):
    """the log-pdf parameter itself, an indexed view of one, or a sum of such (streams added in the log domain)"""
    t = strip_views(t)
    if t.op == 'param':
        return True
    if t.op == 'sub':
        return plain_log_pdf(t.args[0])
    r = loop_role(t)
    if r is not None and r[0] == 'slice':
        return plain_log_pdf(r[2])          # the element of `for x in log_pdf` / zip(.., log_pdf, ..) is log_pdf[f]
    if t.op == 'binop' and t.args[0] == 'Add':
        return plain_log_pdf(t.args[1]) and plain_log_pdf(t.args[2])
    return False


def normalisation_sites(graph):
    """all divisions of the form NUM / maximum(sum(NUM', axis, keepdims), POS) in a function graph"""
    seen, out = set(), []
    roots = [graph.ret] + [e.term for e in graph.events if e.term is not None]
    for r in roots:
        for t in walk_terms(r, seen):
            if t.op in ('binop', 'iop') and t.args[0] == 'Div':
                fs = floored_sum(t.args[2])
                if fs is not None:
                    out.append((t, t.args[1], fs))
    return out


def static_rank(t, g, depth=0):
    """rank of an array term where the function itself fixes it: a parameter whose shape is unpacked into n names (`F, K, T = x.shape`), indexed by loop indices /
    integers (one axis less each), by index vectors and slices (rank kept), combined elementwise; None when the terms do not show it"""
    from ..walk import index_chain
    t = strip_views(t)
    if not isinstance(t, T) or depth > 12:
        return None
    if t.op == 'param':
        ns = {x.args[2] for e in g.events if e.term is not None for x in walk_terms(e.term) if x.op == 'unpack' and isinstance(x.args[2], int)
              and strip_views(x.args[0]).op == 'attr' and strip_views(x.args[0]).args[1] == 'shape' and strip_views(strip_views(x.args[0]).args[0]) is t}
        return ns.pop() if len(ns) == 1 else None
    if t.op in ('binop', 'iop') and t.args[0] in ('Add', 'Sub', 'Mult', 'Div'):
        rs = [static_rank(z, g, depth + 1) for z in t.args[1:]]
        rs = [r for r in rs if r is not None]
        return max(rs) if rs else None          # operands whose shape the function does not unpack are taken to broadcast against the one it does
    if is_call_to(t, 'numpy.exp', 'numpy.log', 'numpy.abs', 'numpy.sqrt', 'numpy.square', 'numpy.conj', 'numpy.real', 'numpy.maximum', 'numpy.minimum', 'numpy.clip',
                  'numpy.asarray', 'numpy.copy', 'numpy.nan_to_num'):
        return static_rank(call_arg(t, 0), g, depth + 1)
    if is_call_to(t, 'numpy.sum', 'numpy.amax', 'numpy.max', 'numpy.amin', 'numpy.min', 'numpy.mean'):
        r = static_rank(call_arg(t, 0), g, depth + 1)
        kd, ax_ = call_arg(t, None, 'keepdims'), call_arg(t, 1, 'axis')
        if r is None or ax_ is None:
            return None
        if kd is not None and const_val(kd) is True:
            return r
        return r - 1 if kd is None and isinstance(const_val(ax_), int) and not isinstance(const_val(ax_), bool) else None
    if t.op == 'sub':
        base, items = index_chain(t)
        r = static_rank(base, g, depth + 1)
        if r is None:
            return None
        for it_ in items:
            if isinstance(it_, tuple) and it_ and it_[0] == 'index':
                r -= 1
            elif isinstance(it_, T) and it_.op == 'const' and isinstance(it_.args[0], int) and not isinstance(it_.args[0], bool):
                r -= 1
            elif isinstance(it_, T) and it_.op == 'const' and it_.args[0] is None:
                r += 1
            elif isinstance(it_, T) and (it_.op == 'slice' or (it_.op == 'const' and it_.args[0] is Ellipsis)):
                pass
            elif isinstance(it_, T) and it_.op in ('elem', 'mu'):
                # a row of an index table (a permutation) or the scalar loop index of a for loop over a range / a generator of integers
                lp = it_.extra if it_.op == 'elem' else None
                it_iter = strip_views(lp.iter) if lp is not None and getattr(lp, 'iter', None) is not None else None
                if it_iter is not None and is_call_to(it_iter, 'builtin.range'):
                    r -= 1
                elif it_iter is not None and any(is_call_to(z, 'itertools.permutations') for z in walk_terms(it_iter, into_mu=False)):
                    pass          # a row of the table of permutations: an index vector, the axis stays
                else:
                    return None
            else:
                return None
        return r
    return None


def check_posterior_routine(run, A, qual, class_axis, want_weight, want_mask, min_sites=1, rank_fixed=False):
    fn = A.prog.func(qual)
    g = A.graphs.get(fn)
    sites = normalisation_sites(g)
    if len(sites) < min_sites:
        raise AnalysisError(f'{qual}: normalisation `x / maximum(sum(x, axis, keepdims=True), tiny)` not found (anchor lost)')
    short = qual.split('::')[1]
    for div, num, (s, x, ax, kd, floored) in sites:
        where = fn.loc(div.node)
        if rank_fixed and isinstance(ax, int) and not isinstance(ax, bool) and ax >= 0:
            # an axis counted from the front names the class axis only for an operand of known rank (the routine that works on one frequency of a (F, K, T) input;
            # for the documented (..., K, N) operand of the general routine it is a deviation)
            rk = static_rank(x, g)
            if rk is None:
                run.unresolved('R-AXIS', f'{short}: normalising sum over the class axis', where, f'np.sum(axis={ax}) counts from the front and the rank of its operand is not fixed by the function')
                continue
            ax = ax - rk
        run.check(floored, 'ORDER', f'{short}: normalising sum is floored by a positive constant', where, 'maximum(sum, tiny)',
                  'the denominator is a bare sum: 0/0 for observations whose classes are all inactive / underflowed',
                  construct=f'ORDER::{qual}::denominator-floor')
        run.check(x is num, 'ORDER', f'{short}: denominator sums the value it divides', where,
                  'sum operand is the numerator itself',
                  'the normalising sum is formed from a different value than the one it divides (weights / mask applied after or before inconsistently)',
                  construct=f'ORDER::{qual}::denominator-operand')
        run.check(ax == class_axis and kd is True, 'R-AXIS', f'{short}: normalising sum over the class axis', where,
                  f'np.sum(axis={ax}, keepdims={kd})', f'normalising sum uses axis={ax!r}, keepdims={kd!r}; the class axis of the documented (..., K, N) operand is {class_axis}',
                  construct=f'R-AXIS::{qual}::sum-axis')
        facs = mult_factors(num)
        exps = [(f, c) for f, c in facs if exp_core(f) is not None]
        if len(exps) != 1:
            run.violation('ORDER', f'{short}: exp(log_pdf - max) factor', where, f'expected exactly one max-shifted exponential factor, found {len(exps)}',
                          construct=f'ORDER::{qual}::exp-factor')
            continue
        l, a1, kd1 = exp_core(exps[0][0])
        if rank_fixed and isinstance(a1, int) and not isinstance(a1, bool) and a1 >= 0:
            rk = static_rank(l, g)
            if rk is None:
                run.unresolved('R-AXIS', f'{short}: max-subtraction over the class axis', where, f'amax(axis={a1}) counts from the front and the rank of its operand is not fixed by the function')
                continue
            a1 = a1 - rk
        run.check(plain_log_pdf(l), 'ORDER', f'{short}: the max-shift is applied to the component log-pdf as given', where, '',
                  'the value that is max-shifted and exponentiated is a transformed log-pdf (masking / weighting in the log domain introduces -inf: '
                  '-inf - (-inf) = NaN for observations whose classes are all inactive or have zero weight)', construct=f'ORDER::{qual}::log-domain-input')
        run.check(a1 == class_axis and kd1 is True and a1 == ax, 'R-AXIS', f'{short}: max-subtraction over the class axis', where,
                  f'amax(axis={a1}, keepdims={kd1}) agrees with the sum axis',
                  f'max-subtraction uses axis={a1!r}, keepdims={kd1!r} but the normalising sum uses axis={ax!r} (class axis {class_axis})',
                  construct=f'R-AXIS::{qual}::amax-axis')
        out_kw = call_arg(exps[0][0], None, 'out')
        others = [(f, c) for f, c in facs if f is not exps[0][0]]
        names = {}
        for f, c in others:
            f0 = strip_views(f)
            if f0.op == 'param':
                names[f0.args[0]] = c
        if want_weight:
            run.check(names.get('weight', 'missing') is None, 'ORDER', f'{short}: weights multiply the unnormalised posterior unconditionally', where,
                      'weight is a factor of the numerator before normalisation',
                      'the mixture weight is not an unconditional factor of the value that is normalised',
                      construct=f'ORDER::{qual}::weight-factor')
        if want_mask:
            c = names.get('source_activity_mask', 'missing')
            ok = c not in (None, 'missing') and guard_means_given(c, 'source_activity_mask')
            run.check(ok, 'ORDER', f'{short}: activity mask multiplies before normalisation when given', where,
                      'source_activity_mask is a factor under `is not None`',
                      'the source activity mask is not applied to the unnormalised posterior (inactive classes would not be exactly zero / renormalised)',
                      construct=f'ORDER::{qual}::mask-factor')
            # dtype assertion dominates use
            asserts = [e for e in g.events if e.kind == 'assert' and any(t.op == 'attr' and t.args[1] == 'dtype' and strip_views(t.args[0]).op == 'param'
                                                                        and strip_views(t.args[0]).args[0] == 'source_activity_mask' for t in walk_terms(e.term))]
            run.check(bool(asserts), 'ORDER', f'{short}: mask dtype asserted boolean', where, 'assert on source_activity_mask.dtype present',
                      'no boolean dtype assertion for the activity mask', construct=f'ORDER::{qual}::mask-dtype-assert')
        extra = [f for f, c in others if strip_views(f).op != 'param']
        run.check(not extra, 'ORDER', f'{short}: no foreign factor in the numerator', where, '', f'unexpected factor(s) in the unnormalised posterior: {extra[:2]}',
                  construct=f'ORDER::{qual}::foreign-factor')
    return fn, g, sites


def check_posterior_return(run, A):
    fn = A.prog.func(POSTERIOR)
    g = A.graphs.get(fn)
    alts = unwrap_gamma(g.ret)
    sites = {id(d) for d, _, _ in normalisation_sites(g)}
    ok_alts = 0
    for alt in alts:
        if is_call_to(alt, 'numpy.clip'):
            inner = call_arg(alt, 0)
            lo, hi = call_arg(alt, 1, 'a_min'), call_arg(alt, 2, 'a_max')
            good = id(inner) in sites and lo is not None and strip_views(lo).op == 'param' and strip_views(lo).args[0] == 'affiliation_eps' \
                and isinstance(hi, T) and hi.op == 'binop' and hi.args[0] == 'Sub' and const_val(hi.args[1]) == 1
            run.check(good, 'ORDER', 'log_pdf_to_affiliation: clipping is the last step on the normalised posterior', fn.loc(alt.node),
                      'clip(normalised, eps, 1 - eps)', 'clipping is not applied to the normalised posterior with [eps, 1-eps]',
                      construct=f'ORDER::{POSTERIOR}::clip-last')
            ok_alts += 1
        else:
            run.check(id(alt) in sites, 'ORDER', 'log_pdf_to_affiliation: returns the normalised posterior', fn.loc(getattr(alt, 'node', None)),
                      'return value is the quotient', 'a return path yields something else than the normalised quotient',
                      construct=f'ORDER::{POSTERIOR}::return-value')
            ok_alts += 1
    clipped = [a for a in alts if is_call_to(a, 'numpy.clip')]
    run.check(bool(clipped), 'ORDER', 'log_pdf_to_affiliation: affiliation_eps clips the normalised posterior', fn.loc(),
              'a clipped return alternative exists', 'no return path clips the normalised posterior with affiliation_eps',
              construct=f'ORDER::{POSTERIOR}::clip-present')


def field_deps(av, prefix):
    return {d for d in av.deps if d[0] == 'field' and d[1].startswith(prefix)}


def check_models(run, A):
    prog, ev = A.prog, A.ev
    post = prog.func(POSTERIOR)
    post_pa = prog.func(POSTERIOR_PA)
    n_sites = 0
    for cname, (mod, streams, obs) in MODELS.items():
        cls = prog.cls(f'{D}{mod}::{cname}')
        predict = cls.methods.get('predict')
        if predict is None:
            raise AnalysisError(f'{cname}.predict vanished')
        configs = [('', {})]
        if cname in INTEGRATION:
            configs = [('', {})]
        # boolean option flags at their documented defaults (e.g. return_quadratic_form=False)
        import ast as _ast
        flags = {p: cav(d.value) for p, d in predict.defaults.items() if isinstance(d, _ast.Constant) and isinstance(d.value, bool)}
        ctx = ev.entry(predict, overrides=flags)
        sites = list(call_paths(ctx, lambda cf: callee_func(cf) is post))
        if not sites:
            raise AnalysisError(f'{cname}.predict does not reach the shared posterior routine')
        # (a) value returned by predict is the routine's value (flags at their defaults)
        res = ctx.result
        comps = list(res.tup) if res.tup is not None else [res]
        vids = {(cf.ctx.id, cf.term.id) for cf, _ in sites} | {cf.child.result.vid for cf, _ in sites if cf.child is not None and cf.child.result is not None}
        vids.discard(None)
        run.check(any(c.vid in vids for c in comps), 'R-DEP', f'{cname}.predict returns the posterior routine\'s value', predict.loc(),
                  'return value is (a component of) the value of log_pdf_to_affiliation',
                  'predict does not return the value computed by the shared posterior routine unchanged',
                  construct=f'R-DEP::{cname}.predict::return-origin')
        _check_sites(run, A, cname, streams, obs, sites, predict)
        n_sites += len(sites)
        if cname in INTEGRATION:
            # the inline-PA variant of the E-step (reachable from fit)
            fpred = cls.methods['_predict']
            ev2 = A.fresh_evaluator()
            ctx2 = ev2.entry(fpred, overrides={'inline_permutation_alignment': cav(True)})
            sites_pa = list(call_paths(ctx2, lambda cf: callee_func(cf) is post_pa))
            if not sites_pa:
                raise AnalysisError(f'{cname}._predict(inline_permutation_alignment=True) does not reach the inline-PA posterior routine')
            for cf, path in sites_pa:
                w = cf.args.get('weight')
                sp, sc = cf.args.get('spatial_log_pdf'), cf.args.get('spectral_log_pdf')
                where = cf.ctx.fn.loc(cf.term.node)
                _check_weight(run, cname + ' [inline PA]', w, where, obs)
                run.check(bool(field_deps(sp, 'self.cacg')) and ('field', 'self.spatial_weight') in sp.deps and not field_deps(sp, 'self.' + streams[1]),
                          'R-DEP', f'{cname} [inline PA]: spatial stream = spatial_weight * cACG log-pdf', where, '',
                          f'spatial_log_pdf depends on {sorted(map(str, sp.deps))}', construct=f'R-DEP::{cname}::inline-pa-spatial')
                run.check(bool(field_deps(sc, 'self.' + streams[1])) and ('field', 'self.spectral_weight') in sc.deps and not field_deps(sc, 'self.cacg'),
                          'R-DEP', f'{cname} [inline PA]: spectral stream = spectral_weight * {streams[1]} log-pdf', where, '',
                          f'spectral_log_pdf depends on {sorted(map(str, sc.deps))}', construct=f'R-DEP::{cname}::inline-pa-spectral')
                n_sites += 1
            # and the inline-PA routine ends in the shared routine, per frequency, with the chosen permutation
            inner = list(call_paths(ctx2, lambda cf: callee_func(cf) is post))
            run.check(bool(inner), 'R-DEP', f'{cname} [inline PA]: ends in the shared posterior routine', fpred.loc(), '',
                      'inline-PA posterior does not go through log_pdf_to_affiliation', construct=f'R-DEP::{cname}::inline-pa-shared')
    run.floor('posterior-routine call sites reached from the 7 predict methods (+ inline PA)', n_sites, 9)


def _check_weight(run, label, w, where, obs):
    if w is None:
        run.unresolved('R-DEP', f'{label}: weight argument', where, 'argument not bound')
        return
    obs_deps = [p for p in obs if ('param', p) in w.deps]
    fd = {d[1] for d in w.deps if d[0] == 'field'}
    allowed = {'self.weight', 'self.weight_constant_axis'}
    run.check('self.weight' in fd and not obs_deps and fd <= allowed, 'R-DEP', f'{label}: weight argument is the stored mixture weight', where,
              f'depends on {sorted(fd)} only',
              f'weight argument of the posterior routine depends on {sorted(map(str, w.deps))} (must be the stored weights only, no observation)',
              construct=f'R-DEP::{label}::weight-arg')


def _check_sites(run, A, cname, streams, obs, sites, predict):
    for cf, path in sites:
        where = cf.ctx.fn.loc(cf.term.node)
        w, lp = cf.args.get('weight'), cf.args.get('log_pdf')
        _check_weight(run, cname, w, where, obs)
        if lp is None:
            run.unresolved('R-DEP', f'{cname}: log_pdf argument', where, 'argument not bound')
            continue
        missing = [s for s in streams if not field_deps(lp, 'self.' + s)]
        no_obs = [p for p in obs if ('param', p) not in lp.deps]
        bad_w = ('field', 'self.weight') in lp.deps
        extra = []
        if cname in INTEGRATION:
            for f in ('self.spatial_weight', 'self.spectral_weight'):
                if ('field', f) not in lp.deps:
                    extra.append(f)
        run.check(not missing and not no_obs and not bad_w and not extra, 'R-DEP', f'{cname}: log_pdf argument covers every component stream', where,
                  f'depends on the parameters of {streams} and on {obs}',
                  f'log_pdf argument misses stream parameters {missing}, observations {no_obs}, stream exponents {extra}; depends on stored weight: {bad_w}',
                  construct=f'R-DEP::{cname}::log_pdf-arg')
        if cname in INTEGRATION:
            # additive in the log domain with both exponent factors: exponent * stream + exponent * stream
            t = cf.term
            lpt = call_arg(t, 1, 'log_pdf')
            ok = False
            if isinstance(lpt, T) and lpt.op == 'binop' and lpt.args[0] == 'Add':
                sides = [lpt.args[1], lpt.args[2]]
                ws = []
                for s in sides:
                    if isinstance(s, T) and s.op == 'binop' and s.args[0] == 'Mult':
                        for x in (s.args[1], s.args[2]):
                            if x.op == 'attr' and x.args[1] in ('spatial_weight', 'spectral_weight'):
                                ws.append(x.args[1])
                ok = sorted(ws) == ['spatial_weight', 'spectral_weight']
            run.check(ok, 'R-DEP', f'{cname}: stream log-densities are exponent-weighted and added', where,
                      'spatial_weight * cACG + spectral_weight * second stream',
                      'the posterior input is not `spatial_weight * spatial_log_pdf + spectral_weight * spectral_log_pdf`',
                      construct=f'R-DEP::{cname}::stream-sum')


def check_fit_predict(run, A):
    prog = A.prog
    n = 0
    for cname, (mod, streams, obs) in MODELS.items():
        tr = prog.cls(f'{D}{mod}::{cname}Trainer')
        fp = tr.methods.get('fit_predict')
        if fp is None:
            raise AnalysisError(f'{cname}Trainer.fit_predict vanished')
        g = A.graphs.get(fp)
        ret = g.ret
        name, pos, kw = call_parts(ret)
        ok = False
        detail = ''
        if name == 'method:predict':
            recv = strip_views(pos[0])
            rn, rpos, rkw = call_parts(recv)
            if rn == 'method:fit' and rpos[0] is g.params.get(g.self_name):
                # predict receives the caller's observations unchanged
                args = list(pos[1:]) + list(kw.values())
                ok = all(a.op == 'param' for a in args) and len(args) >= 1
                if not ok:
                    detail = 'predict is not called on the untouched observation parameters'
                # the posterior that is RETURNED is the unclipped one: the posterior routine clips to [eps, 1 - eps] without renormalising (fine for
                # the E-steps inside fit, where the M-step renormalises), so the training clip constant must not reach the final predict
                clipped = [a for a in args if any(x.op == 'param' and x.args[0] == 'affiliation_eps' for x in walk_terms(a))]
                if ok and clipped:
                    ok = False
                    detail = ('the final predict receives the training option affiliation_eps: the returned posterior is clipped to [eps, 1 - eps] and not renormalised '
                              '(class sums exceed one for K >= 3; it is no longer the Bayes posterior of the fitted model)')
            else:
                detail = 'receiver of predict is not the model returned by self.fit'
        else:
            detail = 'return value is not <model>.predict(...)'
        n += 1
        run.check(ok, 'R-DEP', f'{cname}Trainer.fit_predict = predict(fit(...))', fp.loc(), '', detail, construct=f'R-DEP::{cname}Trainer.fit_predict::shape')
    run.floor('fit_predict methods', n, 7)


def check_predict_fit_symmetry(run, A):
    """R-SIB: the public `predict` prepares every observation stream exactly as `fit` prepares it for the E-steps inside EM.  For the models whose trainer calls
    the private `_predict` directly (cACGMM and the two integration models) the argument handed to `self._predict` in `predict` and the one handed to
    `model._predict` in `fit` have the same derivation from the parameter of the same name (projected to the unit sphere in both, or raw in both).  Otherwise the
    posterior that is reported is not the posterior the model was trained with (a Gaussian stream normalised at prediction time only)."""
    from .c04 import raw_param
    n = 0
    for cname, (mod, streams, obs) in MODELS.items():
        mcls = A.prog.cls(f'{D}{mod}::{cname}')
        tcls = A.prog.cls(f'{D}{mod}::{cname}Trainer')
        pred, fit = mcls.methods.get('predict'), tcls.methods.get('fit')
        pm = mcls.methods.get('_predict')
        if pred is None or fit is None or pm is None:
            continue
        states = {}
        for role, fn in (('predict', pred), ('fit', fit)):
            ev = A.fresh_evaluator()
            over = {p_: raw_param(ev, fn, p_) for p_ in obs if p_ in fn.params}
            if not over:
                continue
            ctx = ev.entry(fn, overrides=over)
            for c in ctx_tree(ctx):
                for cf in c.callfacts:
                    if callee_func(cf) is pm:
                        for p_ in obs:
                            v = cf.args.get(p_)
                            if v is not None and ('param', p_) in v.deps:
                                states.setdefault(p_, {}).setdefault(role, set()).add(v.norm if v.norm is not None else '?')
        for p_, st in sorted(states.items()):
            if 'predict' not in st or 'fit' not in st:
                continue
            n += 1
            run.check(st['predict'] == st['fit'], 'R-SIB', f'{cname}: predict and fit hand `{p_}` to the E-step in the same state', pred.loc(), '',
                      f'`{p_}` reaches {cname}._predict as {sorted(map(str, st["predict"]))} from predict but as {sorted(map(str, st["fit"]))} from fit (RAW = as given, '
                      f'(UNIT, axis) = projected to the unit sphere): the reported posterior is not the one of the E-steps the model was fitted with',
                      construct=f'R-SIB::{D}{mod}::{cname}::predict-fit::{p_}')
    run.floor('observation streams compared between predict and fit', n, 8)


def norm_text(t):
    from ..walk import norm_stmt
    try:
        return norm_stmt(t.node)[:60]
    except Exception:
        return repr(t)[:60]


def check_weights_and_initialisers(run, A):
    prog = A.prog
    # estimate_mixture_weight: L1 over the class axis
    fn = prog.func(MMU + 'estimate_mixture_weight')
    g = A.graphs.get(fn)
    un = [e.term for e in g.events if e.kind == 'call' and is_call_to(e.term, D + 'utils::_unit_norm')]
    if not un:
        # another spelling of the saliency branch.  One deviation is recognised: the saliency is normalised over a FIXED axis (its mean / sum over the observations of each slice)
        # before the pooling over weight_constant_axis - with weights tied across an independent axis every slice then gets the same vote whatever its saliency mass, the tied
        # weight is no longer the maximiser of the weighted auxiliary function
        from ..walk import data_derives as _dd
        all_t = [x for e in g.events if e.term is not None for x in walk_terms(e.term)] + list(walk_terms(g.ret))
        per_slice = [x for x in all_t if is_call_to(x, 'numpy.mean', 'numpy.sum', 'numpy.average', 'method:mean', 'method:sum') and call_arg(x, 0) is not None
                     and _dd(call_arg(x, 0), 'saliency') and not _dd(call_arg(x, 0), 'affiliation')
                     and isinstance(const_val(call_arg(x, 1, 'axis')), (int, tuple)) and not isinstance(const_val(call_arg(x, 1, 'axis')), bool)]
        hit = None
        for x in all_t:
            if x.op in ('binop', 'iop') and x.args[0] == 'Div' and _dd(x.args[1], 'saliency') and any(any(y is r_ for y in walk_terms(x.args[2])) for r_ in per_slice):
                hit = x
        if hit is not None:
            run.violation('R-AXIS', 'estimate_mixture_weight: the saliency enters the pooled class mass as given', fn.loc(getattr(hit, 'node', None)),
                          f'`{norm_text(hit)}` normalises the saliency over a fixed axis before the affiliation is pooled over weight_constant_axis: slices with different saliency mass '
                          f'get the same vote in a tied weight (sum_fn s gamma / sum_fn s is replaced by the average of the per-slice weights)',
                          construct='R-AXIS::estimate_mixture_weight::saliency-normalised-per-slice')
        else:
            run.unresolved('R-AXIS', 'estimate_mixture_weight: L1 normalisation over the class axis', fn.loc(), 'the saliency branch is not `_unit_norm(sum(affiliation * saliency, axis=weight_constant_axis), ord=1, axis=-2)`')
    for t in un:
        ax, od, st = call_arg(t, None, 'axis'), call_arg(t, None, 'ord'), call_arg(t, None, 'eps_style')
        run.check(const_val(ax) == -2 and const_val(od) == 1 and const_val(st) == 'where', 'R-AXIS', 'estimate_mixture_weight: L1 normalisation over the class axis', fn.loc(t.node),
                  '_unit_norm(ord=1, axis=-2, eps_style="where")', f'weights normalised with axis={const_val(ax)!r}, ord={const_val(od)!r}, eps_style={const_val(st)!r}',
                  construct='R-AXIS::estimate_mixture_weight::l1-class-axis')
    from ..walk import data_derives as _dd2
    means = [e.term for e in g.events if e.kind == 'call' and is_call_to(e.term, 'numpy.mean') and call_arg(e.term, 0) is not None and _dd2(call_arg(e.term, 0), 'affiliation')]
    for t in means:
        ax, kd = call_arg(t, 1, 'axis'), call_arg(t, None, 'keepdims')
        okax = isinstance(ax, T) and any(x.op == 'param' and x.args[0] == 'weight_constant_axis' for x in walk_terms(ax))
        run.check(okax and const_val(kd) is True, 'R-AXIS', 'estimate_mixture_weight: mean over the tied axes', fn.loc(t.node), '',
                  'mean affiliation is not taken over weight_constant_axis with keepdims=True', construct='R-AXIS::estimate_mixture_weight::mean-axis')
    if not means:
        raise AnalysisError('estimate_mixture_weight: np.mean over weight_constant_axis vanished')
    # random uniform initialisations: wherever a uniform draw is divided, the divisor is its own sum over the class axis (-2),
    # kept / re-inserted at -2 (in place or not, einsum or np.sum, inline or through a helper introduced later)
    n_init = 0
    for q in TRAINERS_WITH_RANDOM_INIT:
        f = prog.func(q)
        gg = A.graphs.get(f)
        found = 0
        for dv in _division_terms(gg):
            num, den = dv.args[1], dv.args[2]
            if not is_call_to(strip_views(num), 'numpy.random.uniform'):
                continue
            found += 1
            n_init += 1
            where = f.loc(dv.node)
            cs = class_sum_form(den)
            # the drawn array has the class count on axis -2
            size = call_arg(strip_views(num), None, 'size')
            if cs is not None and size is not None and isinstance(cs[1], int) and cs[1] >= 0:
                # a draw of a FIXED number of axes (size=shape[-2:]: one (K, N) block shared by all independent entries): an axis counted from the front is that axis for every input
                sz = strip_views(size)
                rank_ = None
                if sz.op == 'sub' and strip_views(sz.args[1]).op == 'slice':
                    lo_, hi_, st_ = (const_val(strip_views(z)) if isinstance(z, T) else NOVAL for z in strip_views(sz.args[1]).args)
                    if isinstance(lo_, int) and not isinstance(lo_, bool) and lo_ < 0 and hi_ is None and st_ is None:
                        rank_ = -lo_
                elif sz.op in ('tuple', 'list') and not any(x.op == 'star' for x in sz.args[0]):
                    rank_ = len(sz.args[0])
                if rank_ is not None and cs[1] < rank_:
                    cs = (cs[0], cs[1] - rank_, (cs[2] - rank_) if isinstance(cs[2], int) and cs[2] >= 0 else cs[2])
            ok = cs is not None and strip_views(cs[0]) is strip_views(num) and cs[1] == -2 and cs[2] == -2
            detail = f'divisor sums axis {cs[1]} and keeps it at {cs[2]}' if cs is not None else 'divisor is not a sum of the drawn array over one axis'
            size_ok = None          # None: the shape of the draw is written in a way this rule does not read
            if size is not None:
                for alt in unwrap_gamma(size):
                    alt = strip_views(alt)
                    while is_call_to(alt, 'builtin.tuple', 'builtin.list') and len(call_parts(alt)[1]) == 1:
                        alt = strip_views(call_parts(alt)[1][0])          # tuple(shape_list)
                    if alt.op in ('tuple', 'list') and len(alt.args[0]) >= 2:
                        k = alt.args[0][-2]
                        size_ok = any(x.op == 'param' and x.args[0] == 'num_classes' for x in walk_terms(k))
                    elif alt.op == 'binop' and alt.args[0] == 'Add' and strip_views(alt.args[2]).op in ('tuple', 'list') and len(strip_views(alt.args[2]).args[0]) >= 2:
                        # leading shape + (num_classes, N)
                        k = strip_views(alt.args[2]).args[0][-2]
                        size_ok = any(x.op == 'param' and x.args[0] == 'num_classes' for x in walk_terms(k))
                    elif alt.op == 'sub':
                        # affiliation_shape[-2:] of a tuple (…, num_classes, N)
                        base = strip_views(alt.args[0])
                        if base.op == 'tuple' and len(base.args[0]) >= 2:
                            k = base.args[0][-2]
                            size_ok = any(x.op == 'param' and x.args[0] == 'num_classes' for x in walk_terms(k))
            if (cs is None or size_ok is None) and not (cs is not None and not ok) and size_ok is not False:
                # the divisor / the shape is not one of the forms read here: not a deviation, but not decided either
                run.unresolved('R-AXIS', f'{q.split("::")[1]}: random start normalised over the class axis', where,
                               f'{detail}; class count on axis -2: {size_ok} - the divisor or the shape of the draw is written in a form this rule does not read')
                continue
            run.check(ok and size_ok, 'R-AXIS', f'{q.split("::")[1]}: random start normalised over the class axis', where, detail,
                      f'uniform start is not divided by its sum over the class axis (-2) re-inserted at -2 ({detail}; class count on axis -2: {size_ok})',
                      construct=f'R-AXIS::{q}::random-init')
        if found == 0:
            raise AnalysisError(f'{q}: normalisation of the random-uniform initialisation not found')
        # every draw is normalised, not only one of them (a function with a permutation-free and a per-frequency draw has two)
        covered = {strip_views(dv.args[1]).id for dv in _division_terms(gg) if is_call_to(strip_views(dv.args[1]), 'numpy.random.uniform')}
        for e_ in gg.events:
            if e_.kind == 'call' and is_call_to(e_.term, 'numpy.random.uniform') and e_.term.id not in covered:
                run.violation('R-AXIS', f'{q.split("::")[1]}: random start normalised over the class axis', f.loc(e_.term.node),
                              'a uniform draw is used as an affiliation without being divided by its sum over the class axis', construct=f'R-AXIS::{q}::random-init-bare')
    run.floor('random-uniform initialisations', n_init, 9)
    # flag
    f = prog.func('pb_bss.initializer.deterministic::flag')
    gg = A.graphs.get(f)
    # every division of the (array valued) initialisation: its divisor is the sum of that array over the class axis, kept at -2
    divs = [(dv, class_sum_form(dv.args[2])) for dv in _division_terms(gg)
            if any(is_call_to(x, 'numpy.broadcast_to') for x in walk_terms(dv.args[1], into_mu=False))]
    if not divs:
        raise AnalysisError('flag: normalisation vanished')
    for dv, cs in divs:
        ok = cs is not None and cs[1] == -2 and cs[2] == -2 and strip_views(cs[0]) is strip_views(dv.args[1])
        run.check(ok, 'R-AXIS', 'flag: renormalised over the class axis', f.loc(dv.node), 'init / sum(init, axis=-2, keepdims=True)',
                  'flag initialiser is not normalised by its own sum over axis -2', construct='R-AXIS::flag::normalisation')
    bc = [e.term for e in gg.events if e.kind == 'call' and is_call_to(e.term, 'numpy.broadcast_to')]
    okb = False
    for t in bc:
        shp = call_arg(t, 1, 'shape')
        tail = trailing_items(shp, 2) if shp is not None else None
        if tail is not None:
            k = strip_views(tail[0])
            okb = k.op == 'param' and k.args[0] == 'num_classes'
    run.check(okb, 'R-AXIS', 'flag: class axis is -2 of the returned shape', f.loc(), '', 'flag does not broadcast to (..., num_classes, N)', construct='R-AXIS::flag::shape')
    # deflation seed: normalised over axis 0 of its (K, F, T) result
    f = prog.func('pb_bss.initializer.deflation::deflationSeed')
    gg = A.graphs.get(f)
    ok = False
    for t in unwrap_gamma(gg.ret):
        t = strip_views(t)
        if t.op in ('binop', 'iop') and t.args[0] == 'Div':
            cs = class_sum_form(t.args[2])
            ok = cs is not None and cs[1] == 0 and cs[2] == 0 and strip_views(cs[0]) is strip_views(t.args[1])
    run.check(ok, 'R-AXIS', 'deflationSeed: normalised over its class axis (0)', f.loc(), '', 'deflation posterior is not divided by its sum over axis 0', construct='R-AXIS::deflationSeed::normalisation')
    # what is normalised is non-negative as a whole: the remainder class 1 - sum_k similarity_k can be negative for three or more sources,
    # so the flooring must come after it was appended (the floored stack is the numerator)
    okf = False
    for t in unwrap_gamma(gg.ret):
        t = strip_views(t)
        if t.op in ('binop', 'iop') and t.args[0] == 'Div':
            num = strip_views(t.args[1])
            okf = is_call_to(num, 'numpy.maximum', 'numpy.clip') and any(strip_views(a_).op == 'param' and strip_views(a_).args[0] == 'eps' for a_ in call_parts(num)[1])
    run.check(okf, 'ORDER', 'deflationSeed: the whole stack (including the remainder class) is floored before it is normalised', f.loc(), '',
              'the value that is normalised is not np.maximum(<all classes>, eps): the remainder class 1 - sum(similarities) stays negative where two similarities exceed one in sum',
              construct='ORDER::deflationSeed::floor-before-normalise')
    # dirichlet / one_hot: class axis moved to -2
    for name in ('dirichlet', 'one_hot'):
        f = prog.func('pb_bss.initializer.iid::' + name)
        gg = A.graphs.get(f)
        alts = unwrap_gamma(gg.ret)
        good = 0
        for t in alts:
            t = strip_views(t)
            if is_call_to(t, 'numpy.broadcast_to'):
                t = strip_views(call_arg(t, 0))
            r_ = axis_reordering(t)
            if r_ is not None and r_[1] in (('swap', frozenset((-1, -2))), ('reverse',), ('perm', (1, 0)), ('swap', frozenset((0, 1)))):
                good += 1
        run.check(good == len(alts) and good >= 2, 'R-AXIS', f'iid.{name}: class axis moved to -2 on every path', f.loc(), '',
                  f'{name}: {good} of {len(alts)} return paths transpose the class axis into position -2', construct=f'R-AXIS::iid.{name}::transpose')


# Denominators / log arguments that are neither provably positive nor class masses, licensed explicitly.
# Keyed by (function, structural descriptor of the operand) -- not by text, so renaming or re-formatting does not matter.
LICENSED = {
    (D + 'von_mises_fisher::VonMisesFisherTrainer._fit', 'binop:Sub'): '1 - r_bar**2 with r_bar < 1 unless all observations coincide; the result is clipped afterwards',
    (D + 'complex_angular_central_gaussian::ComplexAngularCentralGaussian._log_pdf', 'field:covariance_eigenvalues'): 'stored eigenvalues are floored (> 0); eigenvalue_floor=0 raises explicitly',
    (D + 'complex_angular_central_gaussian::ComplexAngularCentralGaussian.log_determinant', 'field:covariance_eigenvalues'): 'stored eigenvalues are floored (> 0)',
    (D + 'complex_bingham::ComplexBingham.norm', 'call:numpy.prod'): 'eigenvalue differences; duplicates are spread apart by _remove_duplicate_eigenvalues first',
    (D + 'complex_bingham::ComplexBingham.log_norm', 'call:method:norm'): 'normaliser of a density (> 0)',
    (D + 'complex_bingham::ComplexBinghamTrainer.find_eigenvalues_v3', 'unpack'): 'start value of the bounded numerical solver only',
    (D + 'complex_bingham::ComplexBinghamTrainer.find_eigenvalues_v2', 'unpack'): 'start value of the bounded numerical solver only',
    (D + 'complex_watson::ComplexWatsonTrainer.hypergeometric_ratio', 'binop:Mult'): 'dimension * 1F1(1; D; kappa) > 0 for kappa >= 0',
    (D + 'complex_watson::ComplexWatson.log_norm_1f1', 'binop:Mult'): '1F1(1; D; kappa) * sphere area > 0',
    (D + 'von_mises_fisher::VonMisesFisher.log_norm', 'call:scipy.special.ive'): 'exponentially scaled Bessel function of a positive concentration (> 0)',
    (D + 'von_mises_fisher::VonMisesFisher.log_norm', 'field:concentration'): 'stored concentration is clipped to [min_concentration, max_concentration] with min > 0',
    ('pb_bss.initializer.deterministic::flag', 'param:num_classes'): 'documented "Scalar > 0"',
    (D + 'complex_watson::ComplexWatsonTrainer.spline', 'field:max_concentration'): 'constructor constant (positive by its meaning: largest admissible concentration)',
    ('pb_bss.initializer.deterministic::flag', 'binop:Sub'): '1 - (K-1)*minimum > 0 by the preceding assert 0 < minimum < 1/K',
    (D + 'gcacgmm::GCACGMMTrainer._m_step', 'unpack'): 'K from the affiliation shape (>= 1)',
    (D + 'vmfcacgmm::VMFCACGMMTrainer._m_step', 'unpack'): 'K from the affiliation shape (>= 1)',
}
LOG_FUNCS = ('numpy.log', 'numpy.log10', 'numpy.log2')


def operand_descriptor(t, ev, ctx, depth=0):
    """structural class(es) of a denominator / log argument: a set of descriptors"""
    t0 = strip_views(t)
    if isinstance(t0, T) and t0.op == 'gamma':
        cv = ev.truth(ev.eval(t0.args[0], ctx))
        if cv is True:
            return operand_descriptor(t0.args[1], ev, ctx, depth)
        if cv is False:
            return operand_descriptor(t0.args[2], ev, ctx, depth)
        return operand_descriptor(t0.args[1], ev, ctx, depth) | operand_descriptor(t0.args[2], ev, ctx, depth)
    return {_operand_descriptor(t, ev, ctx, depth)}


def _operand_descriptor(t, ev, ctx, depth=0):
    while isinstance(t, T):
        t2 = strip_views(t)
        if t2.op == 'sub':
            t2 = t2.args[0]
        elif is_call_to(t2, 'numpy.reshape', 'numpy.expand_dims', 'numpy.squeeze', 'numpy.broadcast_to'):
            t2 = call_arg(t2, 0)
        elif t2.op == 'call' and t2.args[0].op == 'attr' and t2.args[0].args[1] in ('reshape', 'squeeze'):
            t2 = t2.args[0].args[0]
        if t2 is t:
            break
        t = t2
    av = ev.eval(t, ctx)
    if av.is_const and isinstance(av.cval, (int, float, complex)):
        return 'const'
    if t.op == 'mu' and t.next is not None and is_call_to(strip_views(t.args[0]), 'numpy.zeros', 'numpy.zeros_like'):
        nx = strip_views(t.next)
        if isinstance(nx, T) and nx.op in ('iop', 'binop') and nx.args[0] == 'Add' and any(strip_views(z) is t for z in nx.args[1:] if isinstance(z, T)):
            return 'mass'          # total = zeros(...); for k in ...: total += x[..., k, :]  - a sum-type reduction written as a loop
    m = av.meta
    if m is not None and isinstance(m, tuple) and m:
        if m[0] in ('dim', 'dims', 'len', 'ndim_of', 'shape_of'):
            return 'shape'
        if m[0] in ('reduce', 'einsum') and t.op != 'param':
            name = m[1] if m[0] == 'reduce' else 'numpy.einsum'
            if isinstance(name, str) and name.split('.')[-1] in ('sum', 'mean', 'einsum', 'nansum', 'trace'):
                return 'mass'
    if t.op == 'param' and av.term is not None and av.term is not t and depth < 4 and av.vid is not None and isinstance(av.vid[0], int):
        c2 = ctx.parent
        if c2 is not None:
            return '|'.join(sorted(operand_descriptor(av.term, ev, c2, depth + 1)))
    if t.op == 'attr' and t.args[0].op == 'param' and t.args[0].args[0] == 'self':
        return 'field:' + t.args[1]
    if t.op == 'param':
        return 'param:' + t.args[0]
    if t.op == 'call':
        n, _, _ = call_parts(t)
        from ..walk import canon
        return 'call:' + str(canon(n))
    if t.op in ('binop', 'iop'):
        return 'binop:' + t.args[0]
    return t.op


def check_guards(run, A):
    """R-SIGN over the E-step paths (predict of the 7 models), the M-step paths (fit) and the initialisers"""
    prog, ev = A.prog, A.ev
    entries = []
    for cname, (mod, streams, obs) in MODELS.items():
        entries.append(f'{D}{mod}::{cname}.predict')
        entries.append(f'{D}{mod}::{cname}Trainer.fit')
    entries += ['pb_bss.initializer.iid::uniform_normalized', 'pb_bss.initializer.deterministic::flag',
                'pb_bss.initializer.iid::dirichlet', 'pb_bss.initializer.iid::one_hot']
    # the component trainers are public entry points of their own (fixed-point iteration of the cACG starting from ones, ...)
    entries += [f'{D}complex_angular_central_gaussian::ComplexAngularCentralGaussianTrainer.fit', f'{D}complex_watson::ComplexWatsonTrainer.fit',
                f'{D}von_mises_fisher::VonMisesFisherTrainer.fit', f'{D}gaussian::GaussianTrainer.fit']
    seen = {}
    for q in entries:
        fn = prog.func(q)
        ctx = ev.entry(fn)
        for c in ctx_tree(ctx):
            if not c.fn.mod.name.startswith(('pb_bss.distribution', 'pb_bss.initializer', 'pb_bss.utils')):
                continue
            for t, opnd, what in _sensitive_operands(c.graph):
                key = (c.fn.qual, t.id)
                dv = ev.eval(opnd, c)
                if is_bot(dv):
                    continue
                st = seen.setdefault(key, dict(fn=c.fn, t=t, signs=set(), data=False, desc=set(), what=what))
                st['signs'].add(dv.sign)
                st['desc'] |= operand_descriptor(opnd, ev, c)
                m_ = dv.meta
                if isinstance(m_, tuple) and m_ and m_[0] == 'maximum':
                    for x_ in m_[1:3]:
                        if getattr(x_, 'is_const', False) and isinstance(x_.cval, float) and 0 < x_.cval < 1.1754944e-38:
                            st['hint'] = f' (the floor {x_.cval!r} is a python float: compared with single-precision data it is cast to float32, where it is 0.0)'
                if any(d[0] in ('param', 'field', 'rng') for d in dv.deps):
                    st['data'] = True
    n_guarded = n_pre = n_lic = 0
    for (fq, tid), st in sorted(seen.items(), key=lambda kv: (kv[0][0], kv[1]['t'].lineno or 0)):
        fn, t = st['fn'], st['t']
        stmt = _stmt_text(fn, t)
        inst = f'{fq.split("::")[1]}: {st["what"]} in `{stmt}`'
        if not st['data']:
            continue
        if st['signs'] <= {'POS', 'NONZERO'}:
            n_guarded += 1
            run.ok('R-SIGN', inst, fn.loc(t.node), 'operand is positive / non-zero on every analysed path')
            continue
        descs = st['desc']
        if descs <= {'mass', 'shape', 'const'}:
            n_pre += 1
            run.ok('R-SIGN', inst + ' [class mass]', fn.loc(t.node), 'sum-type reduction: positive by the precondition "every class has non-zero mass"')
            continue
        lic = [LICENSED.get((fq, d)) for d in descs if d not in ('mass', 'shape', 'const')]
        if all(lic):
            n_lic += 1
            run.ok('R-SIGN', inst + ' [licensed]', fn.loc(t.node), '; '.join(sorted(set(lic))))
        else:
            run.violation('R-SIGN', inst, fn.loc(t.node),
                          f'data-dependent {st["what"]} without a positive floor (sign: {sorted(map(str, st["signs"]))}, operand kind: {sorted(descs)}); '
                          f'a zero operand yields NaN/Inf instead of a valid affiliation{st.get("hint", "")}',
                          construct=f'R-SIGN::{fq}::{st["what"]}::{"|".join(sorted(descs))}')
    run.floor('guarded data-dependent divisions / logarithms', n_guarded, 12)
    run.count('divisions by class masses (preconditioned)', n_pre)
    run.count('explicitly licensed operands', n_lic)


def _sensitive_operands(graph):
    """(term, operand term, kind) for every division / reciprocal / logarithm of a function graph"""
    seen, out = set(), []
    roots = [graph.ret] + [e.term for e in graph.events if e.term is not None]
    for r in roots:
        for t in walk_terms(r, seen):
            if t.fn is not graph.fn:
                continue
            if t.op in ('binop', 'iop') and t.args[0] in ('Div', 'FloorDiv'):
                out.append((t, t.args[2], 'denominator'))
            elif t.op == 'call' and is_call_to(t, *LOG_FUNCS) and call_arg(t, 0) is not None:
                out.append((t, call_arg(t, 0), 'log argument'))
    return out


def _division_terms(graph):
    seen, out = set(), []
    roots = [graph.ret] + [e.term for e in graph.events if e.term is not None]
    for r in roots:
        for t in walk_terms(r, seen):
            if t.op in ('binop', 'iop') and t.args[0] in ('Div', 'FloorDiv') and t.fn is graph.fn:
                out.append(t)
    return out


def _stmt_text(fn, t):
    """normalised text of the statement that contains term t"""
    import ast
    node = t.node
    if node is None:
        return ''
    best = None
    for n in ast.walk(fn.node):
        if isinstance(n, ast.stmt) and hasattr(n, 'lineno') and n.lineno <= node.lineno <= getattr(n, 'end_lineno', n.lineno):
            if not isinstance(n, (ast.FunctionDef, ast.If, ast.For, ast.While, ast.With, ast.Try, ast.ClassDef)):
                if best is None or (n.end_lineno - n.lineno) <= (best.end_lineno - best.lineno):
                    best = n
    if isinstance(node, ast.stmt):
        best = node
    return norm_stmt(best if best is not None else node)


def check_unsqueeze(run, A):
    """stored weights of the integration models have the tied axes squeezed out (M-step) and re-inserted by
    pb_bss.utils.unsqueeze at the same positions (E-step)"""
    q = 'pb_bss.utils::unsqueeze'
    fn = A.prog.func(q)
    g = A.graphs.get(fn)
    from ..walk import ret_alts
    # axis = [a % (len(shape) + len(axis)) for a in axis]
    fut = mod = ins = False
    undecided = False
    loops = [l for l in g.loops if l.kind == 'for']
    for l in loops:
        it = strip_views(l.iter)
        if not (is_call_to(it, 'builtin.sorted') and not call_parts(it)[2] and len(call_parts(it)[1]) == 1):
            continue
        cp = strip_views(call_arg(it, 0))
        if cp.op == 'comp' and len(cp.args[1]) == 1 and len(cp.args[2]) == 1 and not cp.args[3]:
            # any spelling of the normalisation (a % n; a + n if a < 0 else a): the element is evaluated for every admissible a with n standing for the future rank
            from ..inteval import int_eval, UNKNOWN
            def future_rank(m):
                if m.op == 'binop' and m.args[0] == 'Add':
                    parts = [strip_views(m.args[1]), strip_views(m.args[2])]
                    lens = [x for x in parts if is_call_to(x, 'builtin.len') or (x.op == 'attr' and x.args[1] == 'ndim')]
                    return len(lens) == 2 and any(is_call_to(x, 'builtin.len') and strip_views(call_arg(x, 0)).op == 'param' and strip_views(call_arg(x, 0)).args[0] == 'axis' for x in lens)
                return False
            el0 = cp.args[1][0]
            ranks = [x for x in walk_terms(el0, into_mu=False) if future_rank(strip_views(x))]
            if ranks and not (strip_views(el0).op == 'binop' and strip_views(el0).args[0] == 'Mod'):
                verdict = True
                for n_ in (2, 3, 4):
                    for a_ in range(-n_, n_):
                        env_ = {('term', x.id): n_ for x in ranks}
                        env_[('elem', cp.args[2][0].id)] = a_
                        v_ = int_eval(el0, env_)
                        if v_ is UNKNOWN:
                            verdict = None
                            break
                        if v_ != a_ % n_:
                            verdict = False
                            break
                    if verdict is not True:
                        break
                if verdict is None:
                    undecided = True
                elif verdict:
                    mod = fut = True
        if cp.op == 'comp' and len(cp.args[1]) == 1:
            el = strip_views(cp.args[1][0])
            if el.op == 'binop' and el.args[0] == 'Mod' and strip_views(el.args[1]).op == 'elem':
                mod = True
                m = strip_views(el.args[2])
                if m.op == 'binop' and m.args[0] == 'Add':
                    parts = [strip_views(m.args[1]), strip_views(m.args[2])]
                    # rank of the array (len(shape) / array.ndim) + number of axes to insert
                    lens = [x for x in parts if is_call_to(x, 'builtin.len') or (x.op == 'attr' and x.args[1] == 'ndim')]
                    fut = len(lens) == 2 and any(is_call_to(x, 'builtin.len') and strip_views(call_arg(x, 0)).op == 'param' and strip_views(call_arg(x, 0)).args[0] == 'axis' for x in lens)
        for e in l.body_events:
            if e.kind == 'call' and call_parts(e.term)[0] == 'method:insert':
                _, pos, _ = call_parts(e.term)
                ins = ins or (len(pos) == 3 and strip_views(pos[1]).op == 'elem' and strip_views(pos[1]).extra is l and const_val(pos[2]) == 1)
    r = [strip_views(x) for x in ret_alts(g)]
    resh = len(r) == 1 and is_call_to(r[0], 'numpy.reshape')
    if undecided and not (fut and mod):
        run.unresolved('R-AXIS', 'unsqueeze: singleton axes inserted at the tied positions (modulo the final rank, ascending)', fn.loc(), 'the normalisation of the axes cannot be folded')
    else:
        run.check(fut and mod and ins and resh, 'R-AXIS', 'unsqueeze: singleton axes inserted at the tied positions (modulo the final rank, ascending)', fn.loc(), '',
                  f'axes normalised modulo len(shape)+len(axis): {fut and mod}; inserted as size-1 axes in ascending order: {ins}; reshaped: {resh}', construct=f'R-AXIS::{q}::insertion')
    for cname, mod_ in (('GCACGMM', 'gcacgmm'), ('VMFCACGMM', 'vmfcacgmm')):
        fp = A.prog.func(f'{D}{mod_}::{cname}._predict')
        gp = A.graphs.get(fp)
        posts = [e.term for e in gp.events if e.kind == 'call' and call_parts(e.term)[0] in (POSTERIOR, POSTERIOR_PA)]

        def is_unsq(w):
            w = strip_views(w) if w is not None else None
            return w is not None and call_parts(w)[0] == q and strip_views(call_arg(w, 0)).op == 'attr' and strip_views(call_arg(w, 0)).args[1] == 'weight' and \
                strip_views(call_arg(w, 1)).op == 'attr' and strip_views(call_arg(w, 1)).args[1] == 'weight_constant_axis'
        ok = len(posts) >= 2 and all(is_unsq(call_arg(c, 0, 'weight')) for c in posts)
        run.check(ok, 'R-AXIS', f'{cname}._predict: unsqueeze(self.weight, self.weight_constant_axis)', fp.loc(), '', 'weights are not re-expanded along the stored tied axes',
                  construct=f'R-AXIS::{fp.qual}::unsqueeze-args')
        fm = A.prog.func(f'{D}{mod_}::{cname}Trainer._m_step')
        gm = A.graphs.get(fm)
        sq = [e.term for e in gm.events if e.kind == 'call' and is_call_to(e.term, 'numpy.squeeze')]
        def _axes_param(a_):
            # weight_constant_axis itself, or tuple(weight_constant_axis) / list(...) of it
            a_ = strip_views(a_)
            for _ in range(4):
                if is_call_to(a_, 'builtin.tuple', 'builtin.list') and len(call_parts(a_)[1]) == 1:
                    a_ = strip_views(call_parts(a_)[1][0])
            return a_
        oks = bool(sq) and all(_axes_param(call_arg(c, 1, 'axis')).op == 'param' and _axes_param(call_arg(c, 1, 'axis')).args[0] == 'weight_constant_axis' for c in sq)
        ctor = [strip_views(x) for x in unwrap_gamma(gm.ret)]
        okc = False
        for c in ctor:
            n_, pos, kw = call_parts(c)
            if 'weight_constant_axis' in kw:
                okc = strip_views(kw['weight_constant_axis']).op == 'param' and strip_views(kw['weight_constant_axis']).args[0] == 'weight_constant_axis'
        run.check(oks and okc, 'R-AXIS', f'{cname}Trainer._m_step: tied axes squeezed out and recorded in the model', fm.loc(), '',
                  f'np.squeeze over weight_constant_axis: {oks}; model stores the same weight_constant_axis: {okc}', construct=f'R-AXIS::{fm.qual}::squeeze-record')


def check(run):
    A = run.A
    run.explanation = (
        'Posterior plumbing decided by interprocedural dependence analysis (which stored parameters reach the weight / log-pdf arguments of the '
        'shared posterior routine, from all 7 predict methods and the inline-PA E-step), the shape of the posterior routine decided by pattern '
        'matching on its gated-SSA term graph (max-shift, exp, weight and mask factors, floored sum over the same value, same class axis, clip '
        'last), class-axis normalisation of the weights and of all initialisers, fit_predict = predict(fit()), and a sign analysis of every '
        'data-dependent denominator on the E-/M-step and initialiser paths. Numeric range of values is not decided.')
    run.trusted = ['documented class axis -2 of (..., K, N) affiliations', 'table PRECONDITIONED of divisions licensed by "every class has non-zero mass"']
    from ..opt import check_block_partitions
    check_block_partitions(run, A, ('pb_bss.distribution.', 'pb_bss.initializer.'))
    check_posterior_routine(run, A, POSTERIOR, -2, want_weight=True, want_mask=True)
    check_posterior_routine(run, A, POSTERIOR_PA, -2, want_weight=False, want_mask=False, rank_fixed=True)
    check_posterior_return(run, A)
    check_models(run, A)
    check_predict_fit_symmetry(run, A)
    check_fit_predict(run, A)
    check_weights_and_initialisers(run, A)
    check_unsqueeze(run, A)
    check_guards(run, A)
