"""C13 - beamforming helpers agree with their primitives and act per leading index (structural parts).

  R-DISPATCH  get_bf_vector is partially evaluated (constant domain) on every name it accepts, with and without
              '+ban'; the primitives called on the surviving path, their order and their data flow are compared
              with the composition spelled by the name (naming convention of the wrapper itself).
  R-EIN       apply_beamforming_vector is w^H x: conjugated vector contracts the sensor axis of the mix.
  R-ELL       functions documented for (..., ) inputs use no non-negative literal axis / no front-indexed axis on
              arrays that carry leading axes (phase_correction accumulates along the frequency axis -2).
  LOOP        the per-matrix fallback of stable_solve is index-local (a singular neighbour cannot touch a regular
              bin) with a per-matrix try/except.
  R-API       get_mvdr_vector (shared with C11): stacks of steering vectors are solved as explicit columns.
"""
import ast

from ..model import AnalysisError
from ..terms import T, walk_terms
from ..absint import is_bot, AV, TOP, cav
from ..walk import (ctx_tree, data_derives, ret_alts, call_parts, call_arg, is_call_to, const_val, NOVAL, strip_views, unwrap_gamma, callee_func,
                    callee_name, axis_uses, norm_stmt, newaxis_insertions, loop_role, is_full_slice, last_axis_product_sum)
from .. import ein
from . import c11

B = 'pb_bss.extraction.beamformer::'
W = 'pb_bss.extraction.beamformer_wrapper::'
Q = W + 'get_bf_vector'

TOKEN_PRIMITIVE = {
    # token of the beamformer name -> primitive that must be called for it
    'pca': B + 'get_pca_vector', 'scaled_gev_atf': W + '_get_gev_atf_vector', 'mvdr': B + 'get_mvdr_vector',
    'mvdr_souden': B + 'get_mvdr_vector_souden', 'gev': B + 'get_gev_vector', 'wmwf': B + 'get_wmwf_vector',
    'rank1_pca': W + 'get_pca_rank_one_estimate', 'rank1_gev': W + 'get_gev_rank_one_estimate', 'ban': B + 'blind_analytic_normalization',
}
# the names the wrapper supports on the pinned tree (its own if-chain); a name that stops being accepted is a finding
SUPPORTED = ['pca', 'pca+mvdr', 'scaled_gev_atf+mvdr', 'mvdr_souden', 'rank1_pca+mvdr_souden', 'rank1_gev+mvdr_souden',
             'gev', 'rank1_pca+gev', 'rank1_gev+gev', 'wmwf', 'rank1_pca+wmwf', 'rank1_gev+wmwf']
DISPATCH_HELPERS = {W + '_get_atf_vector', W + '_get_rank_1_approximation'}


def accepted_names(A):
    """string constants the wrapper compares its name against (its own table of supported beamformers)"""
    fn = A.prog.func(Q)
    g = A.graphs.get(fn)
    names = set()
    seen = set()
    roots = [c for e in g.events for c, _ in e.guards]
    for r in roots:
        for t in walk_terms(r, seen):
            if t.op == 'cmp' and t.args[0] in ('Eq', 'In'):
                v = const_val(t.args[2])
                if isinstance(v, str):
                    names.add(v)
                elif t.args[2].op in ('list', 'tuple'):
                    for x in t.args[2].args[0]:
                        if isinstance(const_val(x), str):
                            names.add(const_val(x))
    return sorted(n for n in names if n not in ('', ))


def flatten_calls(ctx):
    """repo primitives called on the surviving path of the wrapper, dispatch helpers expanded, in program order"""
    out = []
    for cf in ctx.callfacts:
        f = callee_func(cf)
        if f is None:
            continue
        if f.qual in DISPATCH_HELPERS and cf.child is not None:
            out.extend(flatten_calls(cf.child))
        elif f.mod.name.startswith('pb_bss.extraction'):
            out.append((f.qual, cf))
    return out


def check_dispatch(run, A):
    fn = A.prog.func(Q)
    names = sorted(n_ for n_ in set(accepted_names(A)) | set(SUPPORTED) if n_ and all(t_ in TOKEN_PRIMITIVE for t_ in n_.split('+')))
    if len(names) < len(SUPPORTED):
        raise AnalysisError('get_bf_vector: the documented beamformer names are no longer all accepted by the wrapper')
    run.count('beamformer names (accepted by the wrapper or documented)', len(names))
    n = 0
    for base in names:
        for ban in (False, True):
            name = base + ('+ban' if ban else '')
            ev = A.fresh_evaluator()
            ctx = ev.entry(fn, overrides={'beamformer': cav(name)})
            got = flatten_calls(ctx)
            seq = [q for q, _ in got]
            if base not in SUPPORTED and (ctx.result is None or is_bot(ctx.result)):
                continue          # a string the wrapper compares with, but not a name it accepts on its own (every path raises): only documented names must be accepted
            # a call of the wrapper whose callee the interpreter could not resolve (a function taken from a table, a partial application ...) may BE one of the
            # primitives: the sequence seen is then not the sequence executed, and nothing about it is decided
            blind = [cf for c_ in ctx_tree(ctx) if c_.fn.mod.name.endswith('beamformer_wrapper') for cf in c_.callfacts
                     if isinstance(cf.callee, tuple) and cf.callee and cf.callee[0] == 'unresolved']
            if blind:
                run.unresolved('R-DISPATCH', f'get_bf_vector({name!r}): primitives called', fn.loc(blind[0].term.node), f'callee not resolved: {blind[0].callee[1]}')
                continue
            # ... and a test of the NAME that the interpreter cannot decide for this constant name (string methods it does not model, membership in a table built
            # elsewhere) leaves both arms of the wrapper open: the calls collected are those of several names at once
            gw = A.graphs.get(fn)
            open_tests = []
            for e_ in gw.events:
                if e_.kind != 'call':
                    continue
                for c_, _pol in e_.guards:
                    # (the parts of `a and b` / `not a` are judged one by one: a test that is open because of ANOTHER argument is not a test of the name)
                    stack_ = [c_]
                    while stack_:
                        a_ = stack_.pop()
                        if a_.op == 'bool':
                            stack_ += list(a_.args[1])
                        elif a_.op == 'unop' and a_.args[0] == 'Not':
                            stack_.append(a_.args[1])
                        elif data_derives(a_, 'beamformer') and ev.truth(ev.eval(a_, ctx)) is None:
                            open_tests.append(a_)
            if open_tests:
                run.unresolved('R-DISPATCH', f'get_bf_vector({name!r}): primitives called', fn.loc(getattr(open_tests[0], 'node', None)),
                               'a test of the beamformer name is not decided for this name by the interpreter')
                continue
            tokens = name.split('+')
            want = []
            if len(tokens) >= 2 and tokens[1] == 'mvdr':
                want = [TOKEN_PRIMITIVE[tokens[0]], TOKEN_PRIMITIVE['mvdr']]
            else:
                want = [TOKEN_PRIMITIVE[t] for t in tokens if t != 'ban']
            if ban:
                want.append(TOKEN_PRIMITIVE['ban'])
            # nested primitives (e.g. get_gev_rank_one_estimate calls _get_gev_atf_vector itself) are not direct calls of the wrapper
            n += 1
            inst = f'get_bf_vector({name!r})'
            run.check(seq == want, 'R-DISPATCH', f'{inst}: primitives called', fn.loc(), ' -> '.join(q.split('::')[1] for q in seq),
                      f'name spells {[q.split("::")[1] for q in want]} but the wrapper calls {[q.split("::")[1] for q in seq]}',
                      construct=f'R-DISPATCH::{name}::sequence')
            if seq != want:
                continue
            # data flow: each stage consumes the previous stage's result in the right argument; the wrapper returns the last result
            res = ctx.result
            last = got[-1][1]
            last_vid = (last.ctx.id, last.term.id)
            ok_ret = res.vid == last_vid or (last.child is not None and last.child.result is not None and res.vid == last.child.result.vid)
            run.check(ok_ret, 'R-DISPATCH', f'{inst}: returns the last stage\'s result', fn.loc(), '', 'the wrapper does not return the value of the last primitive of the chain',
                      construct=f'R-DISPATCH::{name}::return')
            for i in range(1, len(got)):
                prevq, prev = got[i - 1]
                curq, cur = got[i]
                prev_vids = {(prev.ctx.id, prev.term.id)} | ({prev.child.result.vid} if prev.child is not None and prev.child.result is not None else set())
                slot = {B + 'blind_analytic_normalization': 'vector', B + 'get_mvdr_vector': 'atf_vector'}.get(curq, 'target_psd_matrix')
                arg = cur.args.get(slot)
                okf = arg is not None and arg.vid in prev_vids
                run.check(okf, 'R-DISPATCH', f'{inst}: {curq.split("::")[1]}.{slot} <- {prevq.split("::")[1]}', fn.loc(cur.term.node), '',
                          f'argument `{slot}` of {curq.split("::")[1]} is not the result of the preceding stage {prevq.split("::")[1]}', construct=f'R-DISPATCH::{name}::flow::{slot}')
            for q_, cf in got:
                if 'noise_psd_matrix' in cf.args and q_ != B + 'get_pca_vector':
                    a = cf.args['noise_psd_matrix']
                    okn = ('param', 'noise_psd_matrix') in a.deps and ('param', 'target_psd_matrix') not in a.deps
                    run.check(okn, 'R-DISPATCH', f'{inst}: {q_.split("::")[1]} receives the noise PSD as noise', fn.loc(cf.term.node), '',
                              'the noise PSD argument is not the wrapper\'s noise_psd_matrix', construct=f'R-DISPATCH::{name}::noise-role')
    # channel selection 'chN'
    ev = A.fresh_evaluator()
    ctx = ev.entry(fn, overrides={'beamformer': cav('ch1')})
    seq = [q for q, _ in flatten_calls(ctx)]
    run.check(seq == [], 'R-DISPATCH', "get_bf_vector('ch1'): unit vector, no primitive", fn.loc(), '', f'channel selection calls {seq}', construct='R-DISPATCH::chN::sequence')
    g = A.graphs.get(fn)
    st = [e for e in g.events if e.kind == 'store']
    okc = any(const_val(e.term.args[2]) == 1 and any(is_call_to(x, 'builtin.int') for x in walk_terms(e.term.args[1])) for e in st)
    if not okc:
        # the same unit vector as a row of the identity: np.eye(D)[int(name[2:])]
        for r_ in [g.ret] + [e.term for e in g.events if e.term is not None]:
            for x in walk_terms(r_, into_mu=False):
                if x.op == 'sub' and is_call_to(strip_views(x.args[0]), 'numpy.eye', 'numpy.identity') and any(is_call_to(y, 'builtin.int') for y in walk_terms(x.args[1])):
                    okc = True
    run.check(okc, 'R-DISPATCH', "get_bf_vector('chN'): one-hot at index N", fn.loc(), '', 'the selected channel is not set to 1 at int(name[2:])', construct='R-DISPATCH::chN::one-hot')
    run.count('names x {plain, +ban} specialised', n)


def check_apply(run, A):
    q = B + 'apply_beamforming_vector'
    sites = ein.find_sites(A, q)
    if not sites:
        raise AnalysisError('apply_beamforming_vector: einsum vanished')
    s = sites[0]
    info = ein.operand_info(s)
    st = ein.structure(s)
    iv = ein.operand_index(s, lambda b, cj, raw: data_derives(raw, 'vector'))
    im = ein.operand_index(s, lambda b, cj, raw: data_derives(raw, 'mix'))
    ok = iv is not None and im is not None and info[iv][1] and not info[im][1]
    if ok:
        v, m = st['ins'][iv], st['ins'][im]
        ok = len(v) == 1 and len(m) == 2 and v[0] == m[0] and v[0] not in st['out'] and st['out'] == m[1]
    run.check(ok, 'R-EIN', f'apply_beamforming_vector {st["sub"]!r}: w^H x per leading index', s.loc, '',
              f'{st["sub"]!r}: the CONJUGATED vector must contract the sensor axis (-2) of the mix and keep the frame axis', construct=f'R-EIN::{q}::structure')


def documented_ellipsis(fn):
    return '...' in (fn.doc or '')


# uses of a non-negative literal axis that are correct for any number of leading axes (one line of reason each)
AXIS_EXCEPTIONS = {
    (B + 'get_mvdr_vector', 'newaxis'): 'front-broadcast of the noise PSD against extra leading axes of the steering vectors',
    (B + 'get_lcmv_vector', 'numpy.repeat'): 'documented fixed layout (targets, bins, sensors)',
    (B + 'get_lcmv_vector', 'newaxis'): 'documented fixed layout (targets, bins, sensors)',
    (B + 'get_gev_vector', 'numpy.argmax'): 'result of the Cython c_eig extension (fixed (bins, sensors) layout); the extension is not built / analysed here',
}


def check_ell(run, A, only=None):
    n = 0
    mods = only or ('pb_bss.extraction.beamformer', 'pb_bss.extraction.beamformer_wrapper', 'pb_bss.math.solve')
    for fn in A.prog.all_funcs():
        if fn.mod.name not in mods or not documented_ellipsis(fn):
            continue
        from ..terms import known_funcs as _known
        if fn.qual not in _known() and fn.name.startswith('_'):
            continue          # a private helper a later change introduced: analysed in place, in the graphs of its callers
        g = A.graphs.get(fn)
        short = fn.qual.split('::')[1]
        for t, opnd, ax, name, e in axis_uses(g):
            if ax is None:
                continue
            v = const_val(ax)
            if v is NOVAL:
                from ..walk import foreign_rank_axis
                fr = foreign_rank_axis(ax, opnd)
                if fr is not None:
                    # an axis counted with the rank of an array whose rank the operand need not have (leading axes of the operands broadcast against each other)
                    n += 1
                    if fr[0] == 'foreign':
                        run.violation('R-ELL', f'{short}: {name.split(".")[-1]}(axis=<rank of another array>) counts from the right', fn.loc(t.node),
                                      f'`{norm_stmt(t.node)[:110]}`: the axis is computed from the rank of `{norm_stmt(fr[1].node)[:40]}`, an array the operand is not derived from: it names '
                                      f'the intended axis only while both happen to have the usual number of leading axes', construct=f'R-ELL::{fn.qual}::axis-foreign-rank::{name}')
                    else:
                        run.unresolved('R-ELL', f'{short}: {name.split(".")[-1]}(axis=<computed from a rank>) counts from the right', fn.loc(t.node),
                                       f'`{norm_stmt(t.node)[:110]}`: the axis is computed from the rank of one of several arrays the operand combines (broadcasting): '
                                       f'whether it is the intended axis for every admissible rank is not decided')
                continue
            vals = v if isinstance(v, tuple) else (v,)
            if not all(isinstance(x, int) for x in vals):
                continue
            n += 1
            from ..walk import named_front_axes
            named = named_front_axes(opnd) if opnd is not None else 0
            bad = [x for x in vals if x >= named]          # (an axis in front that the function itself built means the same for every input rank)
            if bad and (fn.qual, name) in AXIS_EXCEPTIONS:
                run.ok('R-ELL', f'{short}: {name}(axis={v}) [listed exception]', fn.loc(t.node), AXIS_EXCEPTIONS[(fn.qual, name)])
                continue
            run.check(not bad, 'R-ELL', f'{short}: {name.split(".")[-1]}(axis={v}) counts from the right', fn.loc(t.node), '',
                      f'`{norm_stmt(t.node)}`: a non-negative axis on an array documented with leading `...` axes addresses a different axis as soon as a leading axis is present',
                      construct=f'R-ELL::{fn.qual}::axis::{name}')
        # inserted axes: x[:, None] / np.expand_dims(x, 1) count from the left as well
        seen = set()
        for r in [g.ret] + [e.term for e in g.events if e.term is not None]:
            for t in walk_terms(r, seen):
                ins = newaxis_insertions(t) if t.op == 'sub' else None
                if ins is None:
                    continue
                n += 1
                bad = [x for x in ins[1] if x >= 0]
                if bad and (fn.qual, 'newaxis') in AXIS_EXCEPTIONS:
                    run.ok('R-ELL', f'{short}: inserted axis at {ins[1]} [listed exception]', fn.loc(t.node), AXIS_EXCEPTIONS[(fn.qual, 'newaxis')])
                    continue
                run.check(not bad, 'R-ELL', f'{short}: inserted axis {ins[1]} counts from the right', fn.loc(t.node), '',
                          f'`{norm_stmt(t.node)}`: an axis inserted at a position counted from the left of an array documented with leading `...` axes '
                          f'lands elsewhere as soon as a leading axis is present', construct=f'R-ELL::{fn.qual}::axis::newaxis')
    if only is not None:
        run.count('literal axis uses in the shared solver functions', n)
        return
    run.floor('literal axis uses in (..., )-documented beamforming functions', n, 12)
    # phase_correction: accumulate along the frequency axis (-2 of (..., bins, sensors))
    q = B + 'phase_correction'
    fn = A.prog.func(q)
    g = A.graphs.get(fn)
    cps = [t for t, _, ax, name, _ in axis_uses(g) if name in ('numpy.cumprod', 'numpy.cumsum', 'method:cumprod', 'method:cumsum')]
    if not cps:
        raise AnalysisError('phase_correction: cumulative product / sum over the frequency axis not found')
    acc_ax = const_val(call_arg(cps[0], 1, 'axis'))
    if acc_ax is NOVAL:
        run.unresolved('R-ELL', 'phase_correction: phase is accumulated along the frequency axis', fn.loc(cps[0].node), 'the axis of the accumulation is computed, not a literal')
    else:
        run.check(acc_ax == -2, 'R-ELL', 'phase_correction: phase is accumulated along the frequency axis', fn.loc(cps[0].node), 'axis=-2',
                  f'accumulation over axis {acc_ax!r}; the documented layout is (..., bins, sensors), the frequency axis is -2', construct=f'R-ELL::{q}::cumprod-axis')
    # FORM: bin f is rotated by exp(+j angle(w_f^H w_{f-1})) (accumulated over f), w_f^H w_{f-1} = sum over the SENSOR axis of conj(w[..., 1:, :]) * w[..., :-1, :]
    def bin_slice(t):
        t = strip_views(t)
        if t.op != 'sub' or t.args[1].op != 'tuple':
            return None
        items = t.args[1].args[0]
        if len(items) < 2 or not is_full_slice(items[-1]) or items[-2].op != 'slice':
            return None
        lo, hi, st = (const_val(x) for x in items[-2].args)
        if NOVAL in (lo, hi, st):
            return 'computed'          # a bound that is an expression (the axis length, max(bins - 1, 0)): not read here
        if st is not None:
            return None
        return 'f' if (lo == 1 and hi is None) else 'f-1' if (lo in (None, 0) and hi == -1) else None
    angles = [e.term for e in g.events if e.kind == 'call' and is_call_to(e.term, 'numpy.angle')]
    okf, why = False, 'np.angle(...) of the inter-bin inner product not found'
    if len(angles) == 1:
        inner = strip_views(call_arg(angles[0], 0))
        lp = last_axis_product_sum(inner)          # np.sum(a * b, -1[, keepdims]) / (a * b).sum(-1)[..., None] / einsum('...d,...d->...') / '...fd,...fd->...f'
        prod = T('binop', ('Mult', lp[0], lp[1])) if lp is not None else None
        why = 'the inner product is not a sum over the sensor axis (-1) of a product of two bin slices'
        if prod is not None and prod.op == 'binop' and prod.args[0] == 'Mult':
            fa, fb = strip_views(prod.args[1]), strip_views(prod.args[2])
            ca, cb = is_call_to(fa, 'numpy.conj'), is_call_to(fb, 'numpy.conj')
            sa = bin_slice(call_arg(fa, 0) if ca else fa) or (bin_slice(fa) if not ca else None)
            sb = bin_slice(call_arg(fb, 0) if cb else fb) or (bin_slice(fb) if not cb else None)
            # conj applied before or after slicing
            if sa is None and fa.op == 'sub' and is_call_to(strip_views(fa.args[0]), 'numpy.conj'):
                ca, sa = True, bin_slice(fa)
            if sb is None and fb.op == 'sub' and is_call_to(strip_views(fb.args[0]), 'numpy.conj'):
                cb, sb = True, bin_slice(fb)
            why = f'factors are bin slices {sa!r} / {sb!r} with conjugation {ca} / {cb}: need conj on exactly one of w[..., 1:, :] and w[..., :-1, :]'
            if {sa, sb} == {'f', 'f-1'} and ca != cb:
                conj_on = sa if ca else sb
                # sign of the rotation: exp(+j angle) when the conjugate is on bin f, exp(-j angle) when it is on bin f-1
                sign = None
                for x in [y for r_ in [g.ret] + [e.term for e in g.events if e.term is not None] for y in walk_terms(r_)]:
                    if x.op == 'binop' and x.args[0] == 'Mult':
                        for u, v in ((x.args[1], x.args[2]), (x.args[2], x.args[1])):
                            cv = const_val(strip_views(u))
                            if isinstance(cv, complex) and cv.real == 0 and abs(cv.imag) == 1 and any(y is angles[0] for y in walk_terms(v, into_mu=False)):
                                neg = sum(1 for y in walk_terms(v, into_mu=False) if y.op == 'unop' and y.args[0] == 'USub') % 2
                                sign = cv.imag * (-1 if neg else 1)
                why = f'conjugate on bin {conj_on}, rotation exp({sign}j * angle): the pair must be (f, +1) or (f-1, -1)'
                okf = sign is not None and ((conj_on == 'f' and sign == 1) or (conj_on == 'f-1' and sign == -1))
    if not okf and 'computed' in why:
        run.unresolved('FORM', 'phase_correction: bin f is rotated by the phase of w_f^H w_{f-1} (sum over sensors)', fn.loc(angles[0].node if angles else None),
                       'the bin slices are written with computed bounds: ' + why)
    else:
        run.check(okf, 'FORM', 'phase_correction: bin f is rotated by the phase of w_f^H w_{f-1} (sum over sensors)', fn.loc(angles[0].node if angles else None), '', why,
                  construct=f'FORM::{q}::inter-bin-phase')
    okacc = any(call_parts(t)[0] in ('numpy.cumprod', 'method:cumprod') and any(is_call_to(y, 'numpy.exp') for y in walk_terms(call_arg(t, 0), into_mu=False)) for t in cps) or \
        any(call_parts(t)[0] in ('numpy.cumsum', 'method:cumsum') and not any(is_call_to(y, 'numpy.exp') for y in walk_terms(call_arg(t, 0), into_mu=False)) for t in cps)
    run.check(okacc, 'FORM', 'phase_correction: rotations accumulate as a product of phasors (or a sum of angles)', fn.loc(cps[0].node), '',
              'the per-bin phasors exp(j angle) are accumulated with a cumulative SUM (or angles with a cumulative product)', construct=f'FORM::{q}::accumulation')
    ev_st = [e for e in g.events if e.kind == 'inplace']
    okc = bool(ev_st) and all(is_call_to(strip_views(e.data['target']), 'numpy.array') or is_call_to(strip_views(strip_views(e.data['target'])), 'numpy.array') or
                              any(is_call_to(x, 'numpy.array', 'numpy.copy', 'method:copy') for x in walk_terms(e.data['target'])) for e in ev_st)
    run.check(okc, 'R-MUT', 'phase_correction: works on a copy', fn.loc(), '', 'the in-place phase rotation does not act on a copy of the input', construct=f'R-MUT::{q}::copy')


def check_stable_solve(run, A):
    q = 'pb_bss.math.solve::stable_solve'
    fn = A.prog.func(q)
    g = A.graphs.get(fn)
    loops = [l for l in g.loops if l.kind == 'for']
    if not loops:
        raise AnalysisError('stable_solve: fallback loop not found')
    L = loops[0]
    el = None
    stores = [e for e in L.body_events if e.kind == 'store']
    solves = [e for e in L.body_events if e.kind == 'call' and call_parts(e.term)[0] in ('numpy.linalg.solve', 'numpy.linalg.lstsq')]
    ok = bool(stores) and bool(solves)
    why = []
    loopvar = None
    for e in stores:
        r = loop_role(e.term.args[1], L)
        if r is None or r[0] != 'index':
            ok = False
            why.append('the result is not stored at the loop index')
    for e in solves:
        for a in (call_arg(e.term, 0), call_arg(e.term, 1)):
            r = loop_role(a, L)
            if r is None or r[0] != 'slice':
                ok = False
                why.append('a per-matrix solve reads something else than the i-th slice')
    # per-matrix try/except: the lstsq fallback is inside a handler inside the loop
    lst = [e for e in solves if call_parts(e.term)[0] == 'numpy.linalg.lstsq']
    plain = [e for e in solves if call_parts(e.term)[0] == 'numpy.linalg.solve']
    # a per-matrix solve can raise on a singular matrix: it must sit in a per-matrix try whose handler falls back to lstsq
    per_matrix = (not plain) or (bool(lst) and all(any(c.op == 'caught' for c, _ in e.guards) and e.loops and e.loops[-1] == L.id for e in lst)
                                 and all(any(c.op == 'nondet' and c.args[0] == 'try' for c, _ in e.guards if True) for e in plain))
    run.check(ok and per_matrix, 'LOOP', 'stable_solve: per-matrix fallback is index-local', fn.loc(L.node), f'{len(solves)} per-matrix solves',
              f'fallback loop is not index-local ({"; ".join(sorted(set(why)))}); per-matrix try/except around lstsq: {per_matrix}', construct=f'LOOP::{q}::index-local')
    # ... and it visits every matrix of the stack: the extent of the loop is the FIRST entry of a 3-D working shape / the first axis of a flattened operand
    from ..walk import index_extent, shape_dim
    ext = index_extent(L)
    ok_ext = None
    if isinstance(ext, T):
        e0 = strip_views(ext)
        sd = shape_dim(e0)
        if sd is not None:
            ok_ext = sd[1] == 0
        elif e0.op == 'sub' and isinstance(const_val(e0.args[1]), int) and not isinstance(const_val(e0.args[1]), bool):
            ws = strip_views(e0.args[0])
            # working_shape_A[0] with working_shape_A = (prod(leading), *shape[-2:]): position 0 of a 3-tuple
            if ws.op in ('tuple', 'list') and len(ws.args[0]) == 3 and not any(x.op == 'star' for x in ws.args[0]):
                ok_ext = const_val(e0.args[1]) in (0, -3)
            elif ws.op in ('tuple', 'list') and ws.args[0] and ws.args[0][0].op != 'star':
                ok_ext = const_val(e0.args[1]) == 0          # [prod(leading), *shape[-2:]]: only position 0 is the flattened leading extent
            elif ws.op == 'binop' and ws.args[0] == 'Add' and strip_views(ws.args[1]).op in ('tuple', 'list') and len(strip_views(ws.args[1]).args[0]) == 1:
                ok_ext = const_val(e0.args[1]) == 0
    if isinstance(ext, tuple) and ext and ext[0] == 'len':
        ok_ext = True              # `for a in A` / enumerate(zip(A, B)): iterating an array visits its whole first axis (that the arrays are the flattened stacks is the rule below)
    if ok_ext is None:
        run.unresolved('LOOP', 'stable_solve: the fallback loop visits every matrix of the flattened stack', fn.loc(L.node), 'extent of the loop not recognised')
    else:
        run.check(ok_ext, 'LOOP', 'stable_solve: the fallback loop visits every matrix of the flattened stack', fn.loc(L.node), '',
                  'the loop does not run over the first (flattened leading) axis of the 3-D working arrays: matrices are skipped or the index runs past the stack',
                  construct=f'LOOP::{q}::extent')
    # the loop runs over the FLAT index of the leading axes: whatever it indexes with that index (both operands, the result buffer) is a stack flattened to 3-D
    def flattened(t, depth=0):
        """True / False / None (not recognised)"""
        for _ in range(30):
            t0 = t
            while isinstance(t0, T) and t0.op in ('mu', 'store', 'refine'):
                t0 = t0.args[0]
            t0 = strip_views(t0)
            while isinstance(t0, T) and t0.op in ('mu', 'store', 'refine'):
                t0 = strip_views(t0.args[0])
            if not isinstance(t0, T):
                return None
            if t0.op == 'param':
                return False
            if t0.op == 'gamma':
                alts = [flattened(x, depth + 1) for x in (t0.args[1], t0.args[2])] if depth < 6 else [None]
                return None if None in alts else all(alts)
            n, pos, kw = call_parts(t0)
            if n is None:
                return None
            if is_call_to(t0, 'numpy.zeros_like', 'numpy.empty_like', 'numpy.ones_like', 'numpy.asarray', 'numpy.array', 'numpy.ascontiguousarray', 'numpy.copy'):
                t = pos[0]
                continue
            if is_call_to(t0, 'numpy.reshape'):
                shp = list(pos[1:]) if (n == 'method:reshape' and len(pos) > 2) else [call_arg(t0, 1, 'newshape')]
                if len(shp) == 1 and shp[0] is not None and strip_views(shp[0]).op in ('tuple', 'list'):
                    shp = list(strip_views(shp[0]).args[0])
                if len(shp) == 1 and shp[0] is not None and isinstance(const_val(strip_views(shp[0])), tuple):
                    return len(const_val(strip_views(shp[0]))) == 3
                length = 0
                for x in shp:
                    if x is None:
                        return None
                    x0 = strip_views(x) if x.op != 'star' else x
                    if x0.op == 'star':
                        inner = strip_views(x0.args[0])
                        # *shape[-2:]
                        if inner.op == 'sub' and strip_views(inner.args[1]).op == 'slice' and const_val(strip_views(inner.args[1]).args[0]) == -2 \
                                and const_val(strip_views(inner.args[1]).args[1]) is None:
                            length += 2
                        else:
                            return None
                    else:
                        length += 1
                return length == 3
            return None
        return None
    indexed = []
    for e in solves:
        for a in (call_arg(e.term, 0), call_arg(e.term, 1)):
            r_ = loop_role(a, L)
            if r_ is not None and r_[0] == 'slice':          # X[i] / the element of `for x in X` / of zip(.., X, ..)
                indexed.append(('operand', r_[2], e))
    for e in stores:
        indexed.append(('result buffer', e.term.args[0], e))
    n_flat = 0
    for what, base, e in indexed:
        f_ = flattened(base)
        if f_ is None:
            run.unresolved('LOOP', f'stable_solve: the {what} indexed by the flat loop index is a stack flattened to 3-D', fn.loc(e.node), 'the array is not traced back to a reshape')
            continue
        n_flat += 1
        run.check(f_, 'LOOP', f'stable_solve: the {what} indexed by the flat loop index is a stack flattened to 3-D', fn.loc(e.node), '',
                  f'the {what} reaches the fallback loop in the caller\'s shape: with more than one leading axis the flat index runs over the first axis only (wrong slices / IndexError)',
                  construct=f'LOOP::{q}::flattened::{what}')
    run.floor('stable_solve: arrays indexed by the flat loop index', n_flat, 6)
    # fast path: the whole stack is tried first
    first = [e for e in g.events if e.kind == 'call' and call_parts(e.term)[0] == 'numpy.linalg.solve' and not e.loops]
    run.check(bool(first), 'LOOP', 'stable_solve: batched solve is tried first', fn.loc(), '', 'no batched np.linalg.solve outside the loop', construct=f'LOOP::{q}::fast-path')
    # ... and what it returns is what the function returns: a cast to the dtype of an operand (`.astype(B.dtype)`) rounds a double-precision solution to the
    # precision of a single-precision right-hand side, or drops the imaginary part of a complex solution for a real one
    casts = []
    for r_ in ret_alts(g):
        for x in walk_terms(r_, into_mu=False):
            if call_parts(x)[0] == 'method:astype' or (is_call_to(x, 'numpy.asarray', 'numpy.array') and (len(call_parts(x)[1]) > 1 or 'dtype' in call_parts(x)[2])):
                if any(call_parts(y)[0] in ('numpy.linalg.solve', 'numpy.linalg.lstsq') for y in walk_terms(x, into_mu=False)):
                    casts.append(x)
    run.check(not casts, 'LOOP', 'stable_solve: the solution is returned in the precision the solver computed it in', fn.loc(casts[0].node if casts else None), '',
              'the result of the solver is cast to another dtype before it is returned: precision (or the imaginary part) of the solution depends on the dtype of an operand',
              construct=f'LOOP::{q}::result-cast')


def check_explicit_reference(run, A):
    """an explicit reference channel is honoured - also channel 0: the SNR-based automatic choice runs only under `<param> is None`
    (a truthiness test sends channel 0 down the automatic path)"""
    from ..walk import none_test, cond_polarity
    auto = B + 'get_optimal_reference_channel'
    n = 0
    for fn in A.prog.all_funcs():
        if fn.mod.name != 'pb_bss.extraction.beamformer':
            continue
        rp = [p for p in fn.params if p in ('ref_channel', 'reference_channel')]
        if not rp or fn.qual == auto:
            continue
        g = A.graphs.get(fn)
        for e in g.events:
            if e.kind != 'call' or call_parts(e.term)[0] != auto:
                continue
            n += 1
            ok, why = False, 'the automatic choice of the reference channel is not guarded by the reference-channel parameter at all'
            for c, pol in e.guards:
                x, is_none = none_test(c, pol)
                if x is not None and x.op == 'param' and x.args[0] in rp:
                    ok, why = bool(is_none), '' if is_none else 'the automatic choice runs when a channel IS given'
                    break
                c0, p0 = cond_polarity(c, pol)
                if strip_views(c0).op == 'param' and strip_views(c0).args[0] in rp:
                    ok, why = False, f'truthiness test of `{rp[0]}`: an explicit channel 0 is falsy and is replaced by the automatic choice'
                    break
            run.check(ok, 'R-DISPATCH', f'{fn.name}: automatic reference channel only when none is given', fn.loc(e.node), f'guarded by `{rp[0]} is None`', why,
                      construct=f'R-DISPATCH::{fn.qual}::explicit-reference')
    run.floor('automatic reference-channel selections', n, 2)


def check(run):
    A = run.A
    from ..opt import check_axisless_squeeze, check_layout_dependent_flatten
    check_axisless_squeeze(run, A, ('pb_bss.extraction.beamformer', 'pb_bss.math.solve'))
    check_layout_dependent_flatten(run, A, ('pb_bss.extraction.beamformer', 'pb_bss.math.solve'))
    from ..opt import check_axisless_reductions
    _B = 'pb_bss.extraction.beamformer::'
    _n = check_axisless_reductions(run, A, [_B + f for f in (
        'get_power_spectral_density_matrix', 'get_pca', 'get_pca_vector', 'get_mvdr_vector', 'get_gev_vector', '_get_gev_vector', 'get_lcmv_vector', 'blind_analytic_normalization', 'condition_covariance',
        'phase_correction', 'get_mvdr_vector_souden', 'get_wmwf_vector', 'apply_beamforming_vector')] + ['pb_bss.math.solve::stable_solve'])
    run.floor('C13 data reductions in per-index helpers', _n, 5)
    from ..opt import check_optional_truthiness, check_params_reach, check_forwarding, check_stale_loop_variables, check_argument_names, check_none_use
    check_none_use(run, A, ('pb_bss.extraction.beamformer', 'pb_bss.math.solve'))
    from ..opt import check_dropped_sanitisers
    check_dropped_sanitisers(run, A, ('pb_bss.extraction.beamformer', 'pb_bss.math.solve'))
    check_argument_names(run, A, ('pb_bss.extraction.beamformer', 'pb_bss.math.solve'))
    check_stale_loop_variables(run, A, ('pb_bss.extraction.beamformer', 'pb_bss.math.solve'))
    from ..opt import check_extent_loops
    check_extent_loops(run, A, ('pb_bss.extraction.beamformer', 'pb_bss.math.solve'))
    from ..opt import check_block_partitions
    check_block_partitions(run, A, ('pb_bss.extraction.beamformer', 'pb_bss.math.solve'))
    check_forwarding(run, A, ('pb_bss.extraction.beamformer', 'pb_bss.math.solve'))
    check_params_reach(run, A, ('pb_bss.extraction.beamformer', 'pb_bss.math.solve'))
    check_optional_truthiness(run, A, ('pb_bss.extraction.beamformer', 'pb_bss.math.solve'))
    check_explicit_reference(run, A)
    # the helper that picks its own reference channel equals the primitive with that channel given: it ranks the columns of the matrix it returns a column of
    from . import c11 as _c11
    _c11.check_souden_wmwf(run, A)
    _c11.check_ref_channel(run, A)
    run.explanation = (
        'get_bf_vector is specialised on each of the names it accepts (constant propagation through endswith / slicing / split / `in` tests prunes the if-chain); the primitives '
        'called on the surviving path, their order, the argument slots they are chained through and the returned value are compared with the composition the name spells. '
        'apply_beamforming_vector is checked on its contraction structure; all literal axes of the (..., )-documented beamforming functions must count from the right '
        '(phase_correction: frequency axis -2); the stable_solve fallback loop must be index-local with a per-matrix try/except; MVDR must solve stacks as explicit columns. '
        'Finite-ness on singular input depends on LAPACK and is not decided.')
    run.trusted = ['naming convention tok <-> get_<tok>_vector / get_<tok>_rank_one_estimate / blind_analytic_normalization taken from the wrapper itself']
    check_dispatch(run, A)
    check_apply(run, A)
    check_ell(run, A)
    # the wrapper equals the composition of its primitives only if these are functions of their arguments: no cache at module level
    from . import c20 as _c20
    _c20.check_module_state(run, A, ('pb_bss.extraction.beamformer', 'pb_bss.math.solve'))
    check_stable_solve(run, A)
    c11.solve_vector_semantics(run, A, B + 'get_mvdr_vector')
