"""C09 - fitted parameters stay inside their documented domain (structural parts: R-SAN sanitiser dominance, R-SIGN).

Each stored parameter must be dominated by the documented sanitiser:
  vMF        concentration = np.clip(., min_concentration, max_concentration); mean = r / max(||r||, tiny)
  Watson     concentration = spline(eigenvalue) with bounds_error=False, fill_value=(0, max_concentration), built over
             [1e-3, max_concentration]; mode = principal eigenvector of the scatter
  cACG       eigenvalues real, divided by max(amax, tiny) and floored by eigenvalue_floor ('eigenvalue' norm) or floored
             relative to amax (other norms); finiteness asserted; scatter made Hermitian under `hermitize`
  Bingham    least_squares bounds (-max_concentration, negative), result >= -max_concentration; Hermitian scatter;
             non-negative scatter eigenvalues asserted
  weights    L1-normalised over the class axis / mean of normalised affiliations / uniform 1/K when tied over classes
  Gaussian   covariance normalised by the floored class mass; Cholesky factorisation in __post_init__ (raises on non-PD)
"""
from ..model import AnalysisError
from ..terms import T, walk_terms
from ..absint import TOP
from ..walk import (struct_eq, data_derives, ret_alts, call_parts, call_arg, is_call_to, const_val, NOVAL, strip_views, unwrap_gamma, callee_func)
from .c01 import positive_floor
from . import c08, c01
from .. import sel

D = 'pb_bss.distribution.'


def kwargs_of_ctor(g, cls_qual):
    outs = []
    for r in ret_alts(g):
        r = strip_views(r)
        n, pos, kw = call_parts(r)
        if n == cls_qual or (n and n.startswith('method:') is False and n == cls_qual):
            outs.append((r, pos, kw))
        elif r.op == 'call' and r.args[0].op == 'param' and r.args[0].args[0] == 'cls':
            outs.append((r, pos, kw))
    return outs


def check_vmf(run, A):
    q = D + 'von_mises_fisher::VonMisesFisherTrainer._fit'
    fn = A.prog.func(q)
    g = A.graphs.get(fn)
    ctor = kwargs_of_ctor(g, D + 'von_mises_fisher::VonMisesFisher')
    if not ctor:
        raise AnalysisError('VonMisesFisherTrainer._fit: constructor call not found')
    _, pos, kw = ctor[0]
    conc, mean = kw.get('concentration'), kw.get('mean')
    ok = conc is not None and is_call_to(conc, 'numpy.clip') and strip_views(call_arg(conc, 1, 'a_min')).op == 'param' and strip_views(call_arg(conc, 1, 'a_min')).args[0] == 'min_concentration' \
        and strip_views(call_arg(conc, 2, 'a_max')).op == 'param' and strip_views(call_arg(conc, 2, 'a_max')).args[0] == 'max_concentration'
    run.check(ok, 'R-SAN', 'vMF: stored concentration is clipped to [min_concentration, max_concentration]', fn.loc(), '', 'concentration handed to the model is not np.clip(., min, max)',
              construct=f'R-SAN::{q}::concentration')
    okm = False
    if mean is not None:
        m = strip_views(mean)
        if m.op == 'binop' and m.args[0] == 'Div':
            d = strip_views(m.args[2])
            inner = d.args[0] if d.op == 'sub' else d
            okm = is_call_to(inner, 'numpy.maximum') and any(positive_floor(x) for x in (call_arg(inner, 0), call_arg(inner, 1))) and \
                any(is_call_to(x, 'numpy.linalg.norm') and (call_arg(x, 0) is m.args[1] or strip_views(call_arg(x, 0)) is strip_views(m.args[1]) or struct_eq(call_arg(x, 0), m.args[1])) for x in walk_terms(inner))
    run.check(okm, 'R-SAN', 'vMF: stored mean is the resultant divided by its floored norm', fn.loc(), '', 'mean is not r / maximum(||r||, tiny): a zero resultant would give NaN',
              construct=f'R-SAN::{q}::mean')


def check_watson(run, A):
    q = D + 'complex_watson::ComplexWatsonTrainer.spline'
    fn = A.prog.func(q)
    g = A.graphs.get(fn)
    r = [strip_views(x) for x in ret_alts(g)]
    ok = len(r) == 1 and is_call_to(r[0], 'scipy.interpolate.interp1d')
    if ok:
        t = r[0]
        be = const_val(call_arg(t, None, 'bounds_error'))
        fv = call_arg(t, None, 'fill_value')
        okf = fv is not None and strip_views(fv).op == 'tuple' and len(strip_views(fv).args[0]) == 2 and const_val(strip_views(fv).args[0][0]) == 0 \
            and strip_views(strip_views(fv).args[0][1]).op == 'attr' and strip_views(strip_views(fv).args[0][1]).args[1] == 'max_concentration'
        # interp1d(y = ratio(x), x): inverse function, first arg derives from hypergeometric_ratio(x)
        a0, a1 = call_arg(t, 0), call_arg(t, 1)
        okinv = a0 is not None and call_parts(strip_views(a0))[0] == 'method:hypergeometric_ratio' and call_arg(strip_views(a0), 1) is a1
        oks = const_val(call_arg(t, None, 'assume_sorted')) is True
        ok = be is False and okf and okinv
        run.check(ok, 'R-SAN', 'Watson: inverse-ratio spline saturates at (0, max_concentration) outside its support', fn.loc(t.node), '',
                  f'interp1d(bounds_error=False: {be is False}, fill_value=(0, self.max_concentration): {okf}, inverse of hypergeometric_ratio: {okinv})', construct=f'R-SAN::{q}::spline')
        grid = strip_views(a1)
        okg = is_call_to(grid, 'numpy.logspace') and any(x.op == 'attr' and x.args[1] == 'max_concentration' for x in walk_terms(call_arg(grid, 1)))
        run.check(okg, 'R-SAN', 'Watson: spline support ends at max_concentration', fn.loc(), '', 'the concentration grid does not end at log10(max_concentration)', construct=f'R-SAN::{q}::grid')
    else:
        run.unresolved('R-SAN', 'Watson spline', fn.loc(), 'not an interp1d')
    q = D + 'complex_watson::ComplexWatsonTrainer._fit'
    fn = A.prog.func(q)
    g = A.graphs.get(fn)
    ctor = kwargs_of_ctor(g, D + 'complex_watson::ComplexWatson')
    if not ctor:
        raise AnalysisError('ComplexWatsonTrainer._fit: constructor call not found')
    _, pos, kw = ctor[0]
    conc = kw.get('concentration')
    okc = conc is not None and call_parts(strip_views(conc))[0] == 'method:hypergeometric_ratio_inverse'
    run.check(okc, 'R-SAN', 'Watson: stored concentration comes from the saturating spline', fn.loc(), '', 'concentration is not hypergeometric_ratio_inverse(eigenvalues)', construct=f'R-SAN::{q}::concentration')
    qi = D + 'complex_watson::ComplexWatsonTrainer.hypergeometric_ratio_inverse'
    gi = A.graphs.get(A.prog.func(qi))
    ri = strip_views(gi.ret)
    oki = ri.op == 'call' and ri.args[0].op == 'attr' and ri.args[0].args[1] == 'spline'
    run.check(oki, 'R-SAN', 'Watson: hypergeometric_ratio_inverse evaluates the spline', A.prog.func(qi).loc(), '', 'does not return self.spline(eigenvalues)', construct=f'R-SAN::{qi}::spline-call')


def check_cacg(run, A):
    q = D + 'complex_angular_central_gaussian::ComplexAngularCentralGaussian.from_covariance'
    fn = A.prog.func(q)
    g = A.graphs.get(fn)
    ctor = kwargs_of_ctor(g, None)
    if not ctor:
        raise AnalysisError('from_covariance: constructor call not found')
    # the decomposition that yields UNITARY eigenvectors is eigh; the general solver (eig: normalised, not orthogonal vectors for a degenerate eigenvalue) is the
    # fallback of an exception handler only
    n_dec = 0
    for e in g.events:
        if e.kind != 'call' or call_parts(e.term)[0] not in ('numpy.linalg.eig', 'scipy.linalg.eig', 'numpy.linalg.eigh', 'scipy.linalg.eigh'):
            continue
        n_dec += 1
        if call_parts(e.term)[0].endswith('.eig'):
            import ast as _ast
            handled = any(getattr(c, 'op', None) == 'caught' for c, _ in (e.guards or []))
            # `try: return eigh(x)  except LinAlgError: pass` followed by the fallback: not having returned from that try IS the handler path
            handled = handled or any(getattr(c, 'op', None) == 'nondet' and c.args and c.args[0] == 'try-return' and pol is False and isinstance(getattr(c, 'node', None), _ast.Try)
                                     and len(c.node.body) == 1 and isinstance(c.node.body[0], _ast.Return) for c, pol in (e.guards or []))
            run.check(handled, 'R-SAN', 'cACG: eigenvectors come from the Hermitian decomposition (eig only as the fallback of an exception handler)', fn.loc(e.term.node), '',
                      'np.linalg.eig is called on a regular path: for a degenerate eigenvalue (rank-deficient scatter) its eigenvectors are normalised but not orthogonal - the stored '
                      'basis is not unitary and U diag(l) U^H is not the covariance the density assumes', construct=f'R-SAN::{q}::eig-on-regular-path')
    run.floor('cACG decompositions in from_covariance', n_dec, 1)
    _, pos, kw = ctor[0]
    ev_ = kw.get('covariance_eigenvalues')
    from ..walk import gamma_paths
    alt_paths = [(c_, strip_views(x)) for c_, x in gamma_paths(ev_)] if ev_ is not None else []
    alts = [a_ for _c, a_ in alt_paths]
    n_floor = 0
    ok_all = bool(alts)
    for ca, a in alt_paths:
        if is_call_to(a, 'numpy.clip') and const_val(call_arg(a, 2, 'a_max')) is None:
            x, fl = call_arg(a, 0, 'a'), call_arg(a, 1, 'a_min')      # clip(x, floor, None) == maximum(x, floor)
        elif is_call_to(a, 'numpy.maximum'):
            x, fl = call_arg(a, 0), call_arg(a, 1)
        else:
            ok_all = False
            continue
        def _has(z):
            # on every alternative of the floor value (it may be selected by covariance_norm before one shared np.maximum)
            return all(any(p.op == 'param' and p.args[0] == 'eigenvalue_floor' for p in walk_terms(alt)) for alt in unwrap_gamma(z))
        if is_call_to(a, 'numpy.maximum') and _has(x) and not _has(fl):
            x, fl = fl, x           # maximum is commutative
        has_floor = _has(fl)
        n_floor += has_floor
        ok_all = ok_all and has_floor
        # where the eigenvalues were divided by their floored maximum they lie in [0, 1] and the floor is the OPTION ITSELF: a floor relative to the (normalised)
        # maximum is 0 for an all-zero scatter (a silent bin), the eigenvalues stay 0, pass the finiteness assert and give log det = -inf / NaN posteriors
        from ..walk import gamma_paths, compatible
        for cx, leaf_x in gamma_paths(x):
            lx = strip_views(leaf_x)
            normalised = lx.op == 'binop' and lx.args[0] == 'Div' and is_call_to(strip_views(lx.args[2]), 'numpy.maximum') and \
                any(is_call_to(y, 'numpy.amax') for y in walk_terms(lx.args[2], into_mu=False))
            if not normalised:
                continue
            for cf, leaf_f in gamma_paths(fl):
                if not compatible(cx, cf):
                    continue
                lf = strip_views(leaf_f)
                run.check(lf.op == 'param' and lf.args[0] == 'eigenvalue_floor', 'R-SAN', 'cACG: max-normalised eigenvalues are floored by the option itself', fn.loc(lf.node or a.node), '',
                          'on the path where the eigenvalues are divided by their (floored) maximum the floor is not the absolute `eigenvalue_floor`: a relative floor vanishes for a '
                          'zero scatter matrix', construct=f'R-SAN::{q}::absolute-floor-after-normalisation')
        # ... and the other way round: the option itself is an absolute bound, meaningful only for eigenvalues scaled to maximum one ("eigenvalues lie in [floor, 1] with
        # maximum 1").  Applied to raw eigenvalues it is a bound on a quantity of arbitrary scale: a scatter with large entries is not floored at all, a faint one is
        # replaced by the floor altogether.  The option string that selects the max-normalisation is 'eigenvalue'.
        from ..walk import selected_options
        for cx, leaf_x in gamma_paths(x, ca):
            lx = strip_views(leaf_x)
            normalised = lx.op == 'binop' and lx.args[0] == 'Div' and any(is_call_to(y, 'numpy.amax', 'numpy.max') for y in walk_terms(lx.args[2], into_mu=False))
            for cf, leaf_f in gamma_paths(fl, cx):
                lf = strip_views(leaf_f)
                absolute = lf.op == 'param' and lf.args[0] == 'eigenvalue_floor'
                if absolute:
                    run.check(normalised, 'R-SAN', 'cACG: the absolute floor is applied to max-normalised eigenvalues only', fn.loc(a.node), '',
                              'np.maximum(eigenvalues, eigenvalue_floor) on eigenvalues that were not divided by their maximum: the stored eigenvalues do not lie in [floor, 1]',
                              construct=f'R-SAN::{q}::absolute-floor-needs-normalisation')
                opts = [next(iter(o)) for o in selected_options(cf, 'covariance_norm') if len(o) == 1]
                if opts and normalised:
                    run.check(opts == ['eigenvalue'], 'R-SAN', "cACG: covariance_norm='eigenvalue' selects the max-normalisation", fn.loc(a.node), '',
                              f'the eigenvalues are divided by their maximum under covariance_norm == {opts[0]!r}', construct=f'R-SAN::{q}::option-eigenvalue')
        # the floor is the option itself (eigenvalues already scaled to maximum one) or the option times the LARGEST eigenvalue of the same matrix:
        # relative to any other statistic (the smallest eigenvalue, a mean) the bound `eigenvalues >= floor * max` is gone
        for alt in unwrap_gamma(fl):
            fa = strip_views(alt)
            if fa.op == 'param' and fa.args[0] == 'eigenvalue_floor':
                continue
            okf = False
            if fa.op == 'binop' and fa.args[0] == 'Mult':
                u, v = strip_views(fa.args[1]), strip_views(fa.args[2])
                if u.op == 'param' and u.args[0] == 'eigenvalue_floor':
                    u, v = v, u
                okf = v.op == 'param' and v.args[0] == 'eigenvalue_floor' and is_call_to(u, 'numpy.amax') and const_val(call_arg(u, 1, 'axis')) == -1
            run.check(okf, 'R-SAN', 'cACG: a relative eigenvalue floor is relative to the largest eigenvalue', fn.loc(fa.node), '',
                      'the floor is not eigenvalue_floor * amax(eigenvalues, axis=-1, keepdims=True)', construct=f'R-SAN::{q}::floor-relative-to-max')
        xs = strip_views(x)
        if xs.op == 'binop' and xs.args[0] == 'Div':
            d = xs.args[2]
            okn = is_call_to(d, 'numpy.maximum') and any(is_call_to(y, 'numpy.amax', 'numpy.max') and const_val(call_arg(y, None, 'axis')) == -1 and const_val(call_arg(y, None, 'keepdims')) is True
                                                            for y in (call_arg(d, 0), call_arg(d, 1))) and any(positive_floor(y) for y in (call_arg(d, 0), call_arg(d, 1)))
            run.check(okn, 'R-SAN', 'cACG: eigenvalues divided by their floored maximum over the eigenvalue axis', fn.loc(xs.node), '',
                      'max-normalisation is not eigenvals / maximum(amax(eigenvals, axis=-1, keepdims=True), tiny)', construct=f'R-SAN::{q}::max-normalisation')
    run.check(ok_all and n_floor >= 1, 'R-SAN', 'cACG: stored eigenvalues are floored with eigenvalue_floor on every path', fn.loc(), '',
              f'{n_floor} of {len(alts)} paths floor the eigenvalues with np.maximum(., eigenvalue_floor ...)', construct=f'R-SAN::{q}::floor')
    # covariance_norm='trace': the matrix that is decomposed is divided by its floored trace - and only under that option
    from ..walk import gamma_paths as _gp, selected_options as _so
    eig_calls = [e.term for e in g.events if e.kind == 'call' and is_call_to(e.term, 'numpy.linalg.eigh')]
    n_trace = 0
    for ec in eig_calls:
        for cm, leaf_m in _gp(call_arg(ec, 0)):
            lm = strip_views(leaf_m)
            from ..walk import trace_operand
            by_trace = lm.op in ('binop', 'iop') and lm.args[0] == 'Div' and any(trace_operand(y) is not None for y in walk_terms(lm.args[2], into_mu=False))
            if not by_trace:
                continue
            n_trace += 1
            opts = [next(iter(o)) for o in _so(cm, 'covariance_norm') if len(o) == 1]
            run.check(opts == ['trace'], 'R-SAN', "cACG: covariance_norm='trace' selects the trace normalisation", fn.loc(lm.node), '',
                      f'the matrix is divided by its trace under {("covariance_norm == " + repr(opts[0])) if opts else "no test of covariance_norm"}', construct=f'R-SAN::{q}::option-trace')
            run.check(is_call_to(strip_views(lm.args[2]), 'numpy.maximum') and any(positive_floor(y) for y in (call_arg(strip_views(lm.args[2]), 0), call_arg(strip_views(lm.args[2]), 1))),
                      'R-SAN', 'cACG: the trace that divides is floored', fn.loc(lm.node), '', 'division by an unfloored trace: a zero scatter gives 0 / 0', construct=f'R-SAN::{q}::trace-floor')
    if n_trace == 0:
        raise AnalysisError('from_covariance: the trace normalisation of the decomposed matrix is not found')
    real = [e for e in g.events if e.term is not None and any(x.op == 'attr' and x.args[1] == 'real' for x in walk_terms(e.term))]
    run.check(bool(real), 'R-SAN', 'cACG: eigenvalues are made real', fn.loc(), '', '`.real` of the eigenvalues vanished', construct=f'R-SAN::{q}::real')
    asserts = [e for e in g.events if e.kind == 'assert' and any(is_call_to(x, 'numpy.isfinite') for x in walk_terms(e.term))]
    run.check(bool(asserts), 'R-SAN', 'cACG: finiteness of the stored eigenvalues asserted', fn.loc(), '', 'assert np.isfinite(eigenvals).all() vanished', construct=f'R-SAN::{q}::finite-assert')
    # eigenvalue_floor == 0 raises explicitly when the decomposition fails
    def _zero_floor_test(c, pol):
        c0 = c
        while isinstance(c0, T) and c0.op == 'unop' and c0.args[0] == 'Not':
            c0, pol = c0.args[1], not pol
        return pol and isinstance(c0, T) and c0.op == 'cmp' and c0.args[0] == 'Eq' and const_val(c0.args[2]) == 0
    raises = [e for e in g.events if e.kind == 'raise' and any(_zero_floor_test(c, p) for c, p in e.guards)]
    # the error object may be selected first and raised afterwards (`error = RuntimeError(...) if floor == 0 else None ... raise error`)
    for e in g.events:
        if e.kind == 'raise' and e.term is not None and e not in raises:
            for conds, leaf in gamma_paths(e.term):
                if call_parts(strip_views(leaf))[0] is not None and any(_zero_floor_test(c, p) for c, p in conds.values()):
                    raises.append(e)
                    break
    run.check(bool(raises), 'R-SAN', 'cACG: eigenvalue_floor = 0 raises an explicit error when the decomposition fails', fn.loc(), '', 'explicit RuntimeError for eigenvalue_floor == 0 vanished',
              construct=f'R-SAN::{q}::zero-floor-error')
    q2 = D + 'complex_angular_central_gaussian::ComplexAngularCentralGaussianTrainer._fit'
    fn2 = A.prog.func(q2)
    g2 = A.graphs.get(fn2)
    herm = [e for e in g2.events if e.kind == 'call' and call_parts(e.term)[0] == D + 'utils::force_hermitian']
    okh = bool(herm) and any(strip_views(c).op == 'param' and strip_views(c).args[0] == 'hermitize' and p for c, p in herm[0].guards)
    run.check(okh, 'R-SAN', 'cACG: scatter is made Hermitian under `hermitize`', fn2.loc(), '', 'force_hermitian(covariance) under `if hermitize` vanished', construct=f'R-SAN::{q2}::hermitize')
    rets = [strip_views(r) for r in ret_alts(g2)]
    okf = len(rets) == 1 and (call_parts(rets[0])[0] or '').endswith('from_covariance') and all(k in call_parts(rets[0])[2] for k in ('eigenvalue_floor', 'covariance_norm'))
    run.check(okf, 'R-SAN', 'cACG: the update goes through from_covariance with floor and norm', fn2.loc(), '', '_fit does not return from_covariance(covariance, eigenvalue_floor=..., covariance_norm=...)',
              construct=f'R-SAN::{q2}::from-covariance')
    qf = D + 'utils::force_hermitian'
    gf = A.graphs.get(A.prog.func(qf))
    r = strip_views(gf.ret)
    okfh = r.op == 'binop' and r.args[0] == 'Div' and const_val(r.args[2]) == 2 and any(is_call_to(x, 'numpy.swapaxes') and {const_val(call_arg(x, 1)), const_val(call_arg(x, 2))} == {-1, -2}
                                                                                           for x in walk_terms(r.args[1])) and any(is_call_to(x, 'method:conj', 'numpy.conj') for x in walk_terms(r.args[1]))
    run.check(okfh, 'R-SAN', 'force_hermitian: (M + M^H) / 2 over the last two axes', A.prog.func(qf).loc(), '', 'force_hermitian is not (matrix + swapaxes(conj(matrix), -1, -2)) / 2', construct=f'R-SAN::{qf}::form')


def check_bingham(run, A):
    q = D + 'complex_bingham::ComplexBinghamTrainer.find_eigenvalues_v3'
    fn = A.prog.func(q)
    g = A.graphs.get(fn)
    ls = [e.term for e in g.events if e.kind == 'call' and is_call_to(e.term, 'scipy.optimize.least_squares')]
    if not ls:
        raise AnalysisError('find_eigenvalues_v3: least_squares call not found')
    b = call_arg(ls[0], None, 'bounds')
    ok = False
    if b is not None and strip_views(b).op == 'tuple' and len(strip_views(b).args[0]) == 2:
        lo, hi = strip_views(b).args[0]
        lo, hi = strip_views(lo), strip_views(hi)
        ok = lo.op == 'unop' and lo.args[0] == 'USub' and strip_views(lo.args[1]).op == 'param' and strip_views(lo.args[1]).args[0] == 'max_concentration' \
            and const_val(hi) is not NOVAL and isinstance(const_val(hi), (int, float)) and const_val(hi) < 0
    run.check(ok, 'R-SAN', 'Bingham: solver bounds (-max_concentration, negative) on the eigenvalue differences', fn.loc(ls[0].node), '', 'least_squares bounds are not (-max_concentration, negative constant)',
              construct=f'R-SAN::{q}::bounds')
    def neg_max(t):
        t = strip_views(t)
        return t.op == 'unop' and t.args[0] == 'USub' and strip_views(t.args[1]).op == 'param' and strip_views(t.args[1]).args[0] == 'max_concentration'
    mx = [e.term for e in g.events if e.kind == 'call' and is_call_to(e.term, 'numpy.maximum') and (neg_max(call_arg(e.term, 0)) or neg_max(call_arg(e.term, 1)))]
    ok2 = bool(mx)
    run.check(ok2, 'R-SAN', 'Bingham: eigenvalues floored at -max_concentration when it is finite', fn.loc(), '', 'est = np.maximum(est, -max_concentration) vanished', construct=f'R-SAN::{q}::floor')
    q2 = D + 'complex_bingham::ComplexBinghamTrainer._fit'
    fn2 = A.prog.func(q2)
    g2 = A.graphs.get(fn2)
    herm = [e for e in g2.events if e.kind == 'call' and call_parts(e.term)[0] == D + 'complex_bingham::force_hermitian']
    eigs = sel.eig_calls(g2)
    okh = bool(herm) and bool(eigs) and strip_views(call_arg(eigs[0][0], 0)) is herm[0].term
    run.check(okh, 'R-SAN', 'Bingham: eigen-decomposition of the Hermitian-symmetrised scatter', fn2.loc(), '', 'eigh is not applied to force_hermitian(covariance)', construct=f'R-SAN::{q2}::hermitian-scatter')
    asserts = [e for e in g2.events if e.kind == 'assert' and any(x.op == 'cmp' and x.args[0] == 'GtE' and const_val(x.args[2]) == 0 for x in walk_terms(e.term))]
    run.check(bool(asserts), 'R-SAN', 'Bingham: non-negative scatter eigenvalues asserted', fn2.loc(), '', 'assert scatter_eigenvalues >= 0 vanished', construct=f'R-SAN::{q2}::nonneg-assert')


def check_weights_and_gaussian(run, A):
    q = D + 'mixture_model_utils::estimate_mixture_weight'
    fn = A.prog.func(q)
    g = A.graphs.get(fn)
    rets = [strip_views(r) for r in ret_alts(g)]
    full = [r for r in rets if is_call_to(r, 'numpy.full')]
    ok = False
    for r in full:
        v = strip_views(call_arg(r, 1))
        from ..walk import shape_dim as _sd
        sd_ = _sd(v.args[2]) if v.op == 'binop' and v.args[0] == 'Div' and const_val(v.args[1]) == 1 else None
        # K is the class-axis length of the affiliation, however it is read (affiliation.shape[-2], `*_, K, _ = affiliation.shape`)
        ok = sd_ is not None and sd_[1] == -2
    run.check(ok, 'R-SAN', 'weights tied over classes are uniform 1/K', fn.loc(), '', 'the class-tied branch does not return np.full([K, 1], 1 / K) with K = affiliation.shape[-2]',
              construct=f'R-SAN::{q}::uniform')
    c01.check_weights_and_initialisers(run, A)
    qg = D + 'gaussian::GaussianTrainer._fit'
    fn = A.prog.func(qg)
    g = A.graphs.get(fn)
    mx = [e.term for e in g.events if e.kind == 'call' and is_call_to(e.term, 'numpy.maximum') and any(is_call_to(x, 'numpy.einsum') for x in walk_terms(e.term))]
    okd = bool(mx) and any(positive_floor(x) for x in (call_arg(mx[0], 0), call_arg(mx[0], 1)))
    run.check(okd, 'R-SAN', 'Gaussian: class mass floored before dividing mean and covariance', fn.loc(), '', 'denominator = np.maximum(sum of saliency, tiny) vanished', construct=f'R-SAN::{qg}::mass-floor')
    divs = c01._division_terms(g)
    okm = len(divs) >= 2 and all(any(x is mx[0] for x in walk_terms(dv.args[2])) or any(is_call_to(x, 'numpy.array') for x in walk_terms(dv.args[2])) for dv in divs) if mx else False
    run.check(okm, 'R-SAN', 'Gaussian: mean and covariance divided by the (floored) mass', fn.loc(), '', 'mean / covariance are not divided by the floored denominator', construct=f'R-SAN::{qg}::division')
    # the scatter is a Gram form: both data operands of the covariance einsum are the SAME centred difference, which makes the
    # result symmetric positive semi-definite by construction (centring one factor only is algebraically equal but leaves an
    # asymmetric rounding residue ~ eps * |mean|^2 that the Cholesky guard, reading one triangle, does not see)
    n_gram = 0
    for e in g.events:
        if e.kind != 'call' or not is_call_to(e.term, 'numpy.einsum'):
            continue
        ops = [strip_views(x) for x in call_parts(e.term)[1][1:]]
        data_ops = [x for x in ops if not (data_derives(x, 'saliency') and not data_derives(x, 'y'))]
        if len(data_ops) != 2:
            continue
        n_gram += 1
        a, b = data_ops
        centred = a.op in ('binop', 'iop') and a.args[0] == 'Sub' and data_derives(a.args[1], 'y')
        run.check(a is b and centred, 'R-SAN', 'Gaussian: covariance is the Gram form of one centred difference', fn.loc(e.term.node), '',
                  'the two data operands of the scatter einsum are not the same centred difference (y - mean): the estimate is no longer symmetric / positive semi-definite by construction',
                  construct=f'R-SAN::{qg}::gram-form')
    run.floor('Gaussian scatter einsums', n_gram, 2)
    for cname in ('Gaussian', 'DiagonalGaussian', 'SphericalGaussian'):
        qp = f'{D}gaussian::{cname}.__post_init__'
        gp = A.graphs.get(A.prog.func(qp))
        okp = any(e.kind == 'call' and ((call_parts(e.term)[0] or '').endswith('_compute_precision_cholesky') or is_call_to(e.term, 'numpy.linalg.cholesky', 'scipy.linalg.cholesky'))
                  for e in gp.events)
        run.check(okp, 'R-SAN', f'{cname}: Cholesky factorisation of the covariance at construction (raises on non-PD input)', A.prog.func(qp).loc(), '',
                  'no Cholesky factorisation of the covariance in __post_init__ any more', construct=f'R-SAN::{qp}::cholesky')


def check(run):
    A = run.A
    run.explanation = (
        'Sanitiser dominance decided on the term graphs: each parameter stored in a fitted model is the value of its documented sanitiser (clip, saturating spline, max-normalisation + floor, '
        'bounded solver + floor, L1 / mean normalisation, floored mass, Hermitian symmetrisation, Cholesky at construction), with the documented bounds as operands. NaN-freeness on arbitrary '
        'degenerate data, unitarity of eigh output and spline overshoot are not decided.')
    run.trusted = ['sanitiser per stored field as documented in the source / property statement']
    check_vmf(run, A)
    check_watson(run, A)
    check_cacg(run, A)
    check_bingham(run, A)
    check_weights_and_gaussian(run, A)
    # the options that select / bound the sanitisers reach the component trainer that applies them: a wrapper that leaves one out silently fits with the callee's default
    # (covariance_norm='trace' asked for, 'eigenvalue' applied: the stored covariance does not have unit trace)
    from ..opt import check_forwarding
    check_forwarding(run, A, ('pb_bss.distribution.',), only=('covariance_norm', 'eigenvalue_floor', 'min_concentration', 'max_concentration', 'hermitize', 'covariance_type',
                                                             'fixed_covariance', 'affiliation_eps'))
    # the affiliation that reaches the M-step after the inline alignment is the aligner's re-ordering of a posterior that sums to one over the classes - every value exactly once
    # (shared with C14): a re-ordering that duplicates one class and drops another leaves the class axis un-normalised and with it the fitted weights
    from . import c14 as _c14
    _c14.check_inline_em_alignment(run, A)
    from ..opt import check_dropped_sanitisers
    run.floor('floors / clamps of the distribution, initializer and utility modules', check_dropped_sanitisers(run, A, ('pb_bss.distribution.', 'pb_bss.initializer.', 'pb_bss.utils')), 20)
    sel.check_principal(run, A, 'pb_bss.utils::get_pca')
