"""C12 - GEV and PCA beamformers maximise their Rayleigh quotients; BAN only rescales (structural parts).

  R-ROLE  eigh(Phi_xx, Phi_nn) argument order in the GEV fallback; rank-one estimates are a a^H rescaled by
          tr(Phi) / tr(a a^H); the GEV steering estimate is Phi_nn w.
  R-SEL   GEV takes the eigenvector (column) of the arg-max eigenvalue, PCA the last pair of the ascending eigh.
  R-EIN   outer products conjugate the second factor; Phi_nn w contracts the column index of Phi_nn; BAN's two
          chains w^H Phi Phi w and w^H Phi w conform.
  SHAPE   scalings multiply by a factor with a trailing singleton axis; BAN returns vector * |gain[..., None]|.
The Cython variants (get_gev_vector.pyx, c_eig.pyx) are not built on this image and not analysed.
"""
from ..model import AnalysisError
from ..terms import T, walk_terms
from ..walk import norm_stmt, dead_leaf, data_derives, ret_alts, call_parts, call_arg, is_call_to, const_val, NOVAL, strip_views, unwrap_gamma, is_conj, same_value, as_norm, struct_eq, gamma_paths, selected_options
from .. import ein, sel

B = 'pb_bss.extraction.beamformer::'
W = 'pb_bss.extraction.beamformer_wrapper::'


def derives(t, pname):
    return data_derives(t, pname)


def trailing_none(t, n=1):
    """t == X[..., None] (n trailing None) -> X"""
    t = strip_views(t)
    if t.op == 'sub' and t.args[1].op == 'tuple':
        items = t.args[1].args[0]
        if len(items) == n + 1 and const_val(items[0]) is Ellipsis and all(const_val(i) is None for i in items[1:]):
            return t.args[0]
    return None


def check_gev(run, A):
    q = B + '_get_gev_vector'
    fn = A.prog.func(q)
    g = A.graphs.get(fn)
    calls = sel.eig_calls(g)
    if not calls:
        raise AnalysisError('_get_gev_vector: eigen-decomposition not found')
    # the buffer the eigenvectors are written into is complex whatever the dtypes of the two PSD matrices: a generalised eigenvector of a real
    # target and a complex noise matrix is complex, and storing it in a real buffer drops its imaginary part (a ComplexWarning, no error)
    bufs = {}
    for e in g.events:
        if e.kind == 'store':
            root = e.term.args[0]
            while isinstance(root, T) and root.op in ('mu', 'store', 'refine'):
                root = root.args[0]
            root = strip_views(root)
            if is_call_to(root, 'numpy.empty', 'numpy.zeros', 'numpy.empty_like', 'numpy.zeros_like') and any(any(x is c_ for x in walk_terms(e.term.args[2])) for c_, _ in calls):
                bufs[id(root)] = root
    if not bufs:
        raise AnalysisError('_get_gev_vector: the buffer that receives the eigenvectors is no longer recognised')
    for root in bufs.values():
        dt = call_arg(root, 1, 'dtype')
        okb = False
        if dt is not None:
            d0 = strip_views(dt)
            name = getattr(d0.args[0], 'dotted', None) if d0.op == 'ref' else None
            okb = name in ('numpy.complex128', 'numpy.complex64', 'numpy.cdouble', 'numpy.complex_', 'numpy.csingle') or (d0.op == 'ref' and d0.args[0] == ('builtin', 'complex')) \
                or (is_call_to(d0, 'numpy.result_type', 'numpy.promote_types') and derives(d0, 'target_psd_matrix') and derives(d0, 'noise_psd_matrix'))
        run.check(okb, 'R-API', '_get_gev_vector: the eigenvector buffer is complex for every input dtype', fn.loc(root.node), '',
                  'the buffer that receives the generalised eigenvectors takes its dtype from one input only (or is real): with a real target and a complex noise PSD the imaginary '
                  'part of the eigenvector is dropped on assignment and the result no longer maximises the Rayleigh quotient', construct=f'R-API::{q}::buffer-dtype')
    for t, srt in calls:
        a, b = call_arg(t, 0), call_arg(t, 1)
        run.check(derives(a, 'target_psd_matrix') and not derives(a, 'noise_psd_matrix') and derives(b, 'noise_psd_matrix') and not derives(b, 'target_psd_matrix'),
                  'R-ROLE', '_get_gev_vector: generalised eigenproblem (Phi_xx, Phi_nn)', fn.loc(t.node), 'solver(target, noise)',
                  'the generalised eigen-decomposition is not called as (target PSD, noise PSD): target and noise swapped minimises instead of maximises the SNR',
                  construct=f'R-ROLE::{q}::eigh-roles')
    sel.check_principal(run, A, q)
    # the wrapper get_gev_vector falls back to _get_gev_vector with the arguments in the same order
    q2 = B + 'get_gev_vector'
    fn2 = A.prog.func(q2)
    g2 = A.graphs.get(fn2)
    fb = [e.term for e in g2.events if e.kind == 'call' and call_parts(e.term)[0] == q]
    ok = bool(fb)
    for t in fb:
        ok = ok and derives(call_arg(t, 0), 'target_psd_matrix') and derives(call_arg(t, 1), 'noise_psd_matrix')
    run.check(ok, 'R-ROLE', 'get_gev_vector: fallback keeps (target, noise) order', fn2.loc(), '', 'fallback call swaps target and noise', construct=f'R-ROLE::{q2}::fallback-roles')
    # every path of the dispatcher returns what one of the eigen solvers returns (the Cython variant or _get_gev_vector): a closed form / approximation written next to them
    # (e.g. for two sensors) is a formula of its own whose maximality this rule does not decide
    for alt in ret_alts(g2):
        a0 = strip_views(alt)
        if dead_leaf(a0):
            continue
        nm_ = call_parts(a0)[0] if a0.op == 'call' else None
        if nm_ == q or (nm_ or '').endswith('_c_get_gev_vector') or (nm_ or '').endswith('_cythonized_eig._c_get_gev_vector') or a0.op in ('mu', 'store'):
            continue
        if nm_ is not None and ('eig' in nm_ or 'gev' in nm_):
            continue
        if any(x.op == 'call' and call_parts(x)[0] and ('eig' in call_parts(x)[0].split('.')[-1].split('::')[-1] or 'gev' in call_parts(x)[0].split('.')[-1].split('::')[-1])
               for x in walk_terms(a0)):
            continue          # a reshaped / indexed result of one of the solvers
        run.unresolved('R-ROLE', 'get_gev_vector: every path returns the result of a generalised eigen solver', fn2.loc(getattr(a0, 'node', None)),
                       f'`{norm_stmt(a0.node)[:90] if getattr(a0, "node", None) is not None else a0.op}` is returned on some path: a hand-written alternative to the eigen-decomposition is not decided')


def check_pca(run, A):
    q = B + 'get_pca'
    sel.check_principal(run, A, q)
    qv = B + 'get_pca_vector'
    fn = A.prog.func(qv)
    g = A.graphs.get(fn)
    rets = [strip_views(r) for r in ret_alts(g)]
    # (a return of the eigenvector itself is the product with the scale 1)
    plain = [r for r in rets if r.op == 'unpack' and r.args[1] == 0 and call_parts(strip_views(r.args[0]))[0] == B + 'get_pca']
    rets = [r for r in rets if not any(r is p_ for p_ in plain)]
    ok = bool(rets) and all(r.op == 'binop' and r.args[0] == 'Mult' for r in rets)
    run.check(ok, 'SHAPE', 'get_pca_vector: returns eigenvector * scale', fn.loc(), '', 'return value is not a product of the principal eigenvector with a scale', construct=f'SHAPE::{qv}::product')
    if ok:
        n_scaled = 0
        for ret in rets:
            vec, scale = ret.args[1], ret.args[2]
            # ... and the vector is the eigenvector get_pca returned, nothing applied to it in between
            v_ = strip_views(vec)
            if not (v_.op == 'unpack' and v_.args[1] == 0 and call_parts(strip_views(v_.args[0]))[0] == B + 'get_pca'):
                sg = [x for x in walk_terms(v_) if is_call_to(x, 'numpy.sign')]
                if sg and any(x.op == 'unpack' and x.args[1] == 0 and call_parts(strip_views(x.args[0]))[0] == B + 'get_pca' for x in walk_terms(v_)):
                    run.violation('R-ROLE', 'get_pca_vector: the scaled vector is the unit-norm principal eigenvector', fn.loc(getattr(sg[0], 'node', None)),
                                  'the eigenvector is multiplied by np.sign(...) of one of its own components before it is scaled: np.sign(0) is 0, an eigenvector with an exactly zero '
                                  'component there (diagonal PSD, dead microphone) becomes the zero vector - not unit norm, Rayleigh quotient 0 / 0', construct=f'R-ROLE::{qv}::eigenvector-times-sign')
                else:
                    run.unresolved('R-ROLE', 'get_pca_vector: the scaled vector is the unit-norm principal eigenvector', fn.loc(getattr(v_, 'node', None)),
                                   'the first factor of the returned product is not the eigenvector returned by get_pca')
            alts = [strip_views(x) for x in unwrap_gamma(scale) if not dead_leaf(x)]
            for x in alts:
                if const_val(x) == 1:
                    continue
                base = trailing_none(x)
                if base is None and is_call_to(x, 'numpy.expand_dims') and call_arg(x, 1, 'axis') is not None and const_val(call_arg(x, 1, 'axis')) is NOVAL:
                    # an axis put back at a computed position (the rank of another array): where it lands is not decided
                    run.unresolved('SHAPE', 'get_pca_vector: scale has a trailing singleton axis', fn.loc(getattr(x, 'node', None)), 'np.expand_dims at a computed position')
                    n_scaled += 1
                    continue
                run.check(base is not None, 'SHAPE', 'get_pca_vector: scale has a trailing singleton axis', fn.loc(getattr(x, 'node', None)), '',
                          'the scaling factor is not broadcast as scale[..., None]', construct=f'SHAPE::{qv}::scale-axis')
                if base is None:
                    n_scaled += 1
                    continue
                for b in unwrap_gamma(base):
                    b = strip_views(b)
                    if b.op in ('binop', 'iop') and b.args[0] == 'Div':
                        den = b.args[2]
                        nrm = as_norm(den)
                        okd = nrm is not None and nrm[1] is not None and const_val(nrm[1]) == -1
                        # the gain may be selected before one shared division by the norm
                        for num in unwrap_gamma(b.args[1]):
                            num = strip_views(num)
                            if dead_leaf(num):
                                continue
                            n_scaled += 1
                            if is_call_to(num, 'numpy.sqrt'):
                                tr = call_arg(num, 0)
                                okn = is_call_to(tr, 'numpy.trace') and {const_val(call_arg(tr, None, 'axis1')), const_val(call_arg(tr, None, 'axis2'))} == {-1, -2} and derives(tr, 'target_psd_matrix')
                                if is_call_to(tr, 'numpy.trace') and derives(tr, 'target_psd_matrix') and okd and any(
                                        call_arg(tr, None, k_) is not None and const_val(call_arg(tr, None, k_)) is NOVAL for k_ in ('axis1', 'axis2')):
                                    # the axes of the trace are computed (from the rank of another array): not a deviation, not decided
                                    run.unresolved('R-ROLE', "get_pca_vector['trace']: sqrt(tr Phi) / ||v||", fn.loc(b.node), 'the axes of the trace are not literals')
                                    continue
                                run.check(okn and okd, 'R-ROLE', "get_pca_vector['trace']: sqrt(tr Phi) / ||v||", fn.loc(b.node), '', 'trace scaling is not sqrt(trace over the last two axes) / norm(axis=-1)',
                                          construct=f'R-ROLE::{qv}::trace-scaling')
                            else:
                                okn = num.op == 'unpack' and num.args[1] == 1
                                run.check(okn and okd, 'R-ROLE', "get_pca_vector['eigenvalue']: lambda_max / ||v||", fn.loc(b.node), '', 'eigenvalue scaling does not use the eigenvalue returned by get_pca',
                                          construct=f'R-ROLE::{qv}::eigenvalue-scaling')
        if n_scaled < 2:
            raise AnalysisError('get_pca_vector: scaling alternatives not found')
        # the option string selects the gain of that name
        n_opt = 0
        for ret in rets:
            # (the selection may sit anywhere inside the scale: around the whole factor, or around the gain only)
            for conds, leaf in [p_ for g_ in [ret.args[2]] + [x for x in walk_terms(ret.args[2]) if x.op == 'gamma'] for p_ in gamma_paths(g_)]:
                sel_ = selected_options(conds, 'scaling')
                if len(sel_) != 1 or len(sel_[0]) != 1:
                    continue
                opt = next(iter(sel_[0]))
                has_trace = any(is_call_to(x, 'numpy.trace') for x in walk_terms(leaf))
                has_eig = any(x.op == 'unpack' and x.args[1] == 1 and call_parts(strip_views(x.args[0]))[0] == B + 'get_pca' for x in walk_terms(leaf))
                if opt in ('trace', 'eigenvalue') and (has_trace or has_eig):
                    n_opt += 1
                    got = 'trace' if has_trace and not has_eig else 'eigenvalue' if has_eig and not has_trace else 'both'
                    run.check(got == opt, 'R-ROLE', f'get_pca_vector: scaling={opt!r} selects the gain of that name', fn.loc(getattr(leaf, 'node', None)), '',
                              f'scaling == {opt!r} multiplies the eigenvector by the {got} gain (documented: trace -> sqrt(tr Phi), eigenvalue -> lambda_max)',
                              construct=f'R-ROLE::{qv}::option::{opt}')
        run.floor('get_pca_vector option strings with a decided gain', n_opt, 1)


def check_rank_one(run, A):
    for name, src in (('get_pca_rank_one_estimate', B + 'get_pca_vector'), ('get_gev_rank_one_estimate', W + '_get_gev_atf_vector')):
        q = W + name
        fn = A.prog.func(q)
        g = A.graphs.get(fn)
        sites = ein.find_sites(A, q)
        if not sites:
            raise AnalysisError(f'{name}: outer product not found')
        s = sites[0]
        n = ein.check_generic(run, s)
        info = ein.operand_info(s)
        st = ein.structure(s)
        ok = n >= 1 and len(info) == 2 and all(call_parts(strip_views(b))[0] == src for b, _, _ in info) and len(st['out']) == 2
        run.check(ok, 'R-EIN', f'{name}: a a^H of the estimated steering vector', s.loc, st['sub'], f'{st["sub"]!r} is not the outer product of the {src.split("::")[1]} result with its conjugate',
                  construct=f'R-EIN::{q}::outer-product')
        ret = strip_views(g.ret)
        okr = False
        if ret.op == 'binop' and ret.args[0] == 'Mult':
            sc = trailing_none(ret.args[1], 2) or trailing_none(ret.args[2], 2)
            other = ret.args[2] if trailing_none(ret.args[1], 2) is not None else ret.args[1]
            if sc is not None and strip_views(other) is s.term:
                sc = strip_views(sc)
                if sc.op == 'iop' and sc.args[0] == 'Div':
                    num, den = sc.args[1], sc.args[2]
                    okr = is_call_to(num, 'numpy.trace') and derives(call_arg(num, 0), 'covariance_matrix') and is_call_to(den, 'numpy.trace') and strip_views(call_arg(den, 0)) is s.term \
                        and {const_val(call_arg(num, None, 'axis1')), const_val(call_arg(num, None, 'axis2'))} == {-1, -2} \
                        and {const_val(call_arg(den, None, 'axis1')), const_val(call_arg(den, None, 'axis2'))} == {-1, -2}
                elif sc.op == 'binop' and sc.args[0] == 'Div':
                    num, den = sc.args[1], sc.args[2]
                    okr = is_call_to(num, 'numpy.trace') and derives(call_arg(num, 0), 'covariance_matrix') and is_call_to(den, 'numpy.trace') and strip_views(call_arg(den, 0)) is s.term
        computed_axes = [t_ for t_ in walk_terms(ret, into_mu=False) if is_call_to(t_, 'numpy.trace')
                         and any(call_arg(t_, None, k_) is not None and const_val(call_arg(t_, None, k_)) is NOVAL for k_ in ('axis1', 'axis2'))]
        if not okr and computed_axes:
            run.unresolved('R-ROLE', f'{name}: rescaled by tr(Phi) / tr(a a^H)', fn.loc(getattr(computed_axes[0], 'node', None)),
                           'the axes of a trace are computed from the rank of another array (not literals): which axes are traced is not decided')
            continue
        run.check(okr, 'R-ROLE', f'{name}: rescaled by tr(Phi) / tr(a a^H)', fn.loc(), '', 'the rank-one matrix is not multiplied by trace(covariance) / trace(rank-one) broadcast over the last two axes',
                  construct=f'R-ROLE::{q}::trace-rescaling')
    # ATF estimate Phi_nn w
    q = W + '_get_gev_atf_vector'
    fn = A.prog.func(q)
    sites = ein.find_sites(A, q)
    if not sites:
        raise AnalysisError('_get_gev_atf_vector: contraction not found')
    s = sites[0]
    info = ein.operand_info(s)
    st = ein.structure(s)
    im = ein.operand_index(s, lambda b, cj, raw: derives(raw, 'noise_covariance_matrix') and not any(call_parts(x)[0] == B + 'get_gev_vector' for x in walk_terms(raw)))
    iv = ein.operand_index(s, lambda b, cj, raw: call_parts(strip_views(b))[0] == B + 'get_gev_vector')
    ok = im is not None and iv is not None and not info[iv][1] and not info[im][1]
    if ok:
        m, v = st['ins'][im], st['ins'][iv]
        ok = len(m) == 2 and len(v) == 1 and v[0] == m[1] and m[0] in st['out'] and m[1] not in st['out']
    run.check(ok, 'R-EIN', f'_get_gev_atf_vector {st["sub"]!r}: a = Phi_nn w (column index contracted)', s.loc, '',
              f'{st["sub"]!r}: the plain GEV vector must contract the COLUMN index of the noise covariance', construct=f'R-EIN::{q}::matvec')
    g = A.graphs.get(fn)
    gv = [e.term for e in g.events if e.kind == 'call' and call_parts(e.term)[0] == B + 'get_gev_vector']
    okg = bool(gv) and derives(call_arg(gv[0], 0), 'covariance_matrix') and derives(call_arg(gv[0], 1), 'noise_covariance_matrix')
    run.check(okg, 'R-ROLE', '_get_gev_atf_vector: GEV of (covariance, noise covariance)', fn.loc(), '', 'get_gev_vector called with swapped arguments', construct=f'R-ROLE::{q}::gev-roles')


def check_ban(run, A):
    q = B + 'blind_analytic_normalization'
    fn = A.prog.func(q)
    g = A.graphs.get(fn)
    sites = ein.find_sites(A, q)
    if len(sites) < 2:
        raise AnalysisError('blind_analytic_normalization: chains not found')
    for s in sites:
        info = ein.operand_info(s)
        st = ein.structure(s)
        ins = st['ins']
        vs = [i for i, (b, cj, raw) in enumerate(info) if derives(raw, 'vector')]
        ms = [i for i, (b, cj, raw) in enumerate(info) if derives(raw, 'noise_psd_matrix')]
        ok = len(vs) == 2 and sum(info[i][1] for i in vs) == 1 and len(ms) == len(info) - 2 and st['out'] == '' and all(not info[i][1] for i in ms)
        if ok:
            vc = next(i for i in vs if info[i][1])
            vp = next(i for i in vs if not info[i][1])
            # chain: conj(w)[a] M1[a,b] (M2[b,c]) w[c]
            cur = ins[vc][-1]
            used = set()
            for _ in ms:
                nxt = [i for i in ms if i not in used and ins[i][-2] == cur]
                if not nxt:
                    ok = False
                    break
                used.add(nxt[0])
                cur = ins[nxt[0]][-1]
            ok = ok and cur == ins[vp][-1]
        run.check(ok, 'R-EIN', f'BAN {st["sub"]!r}: w^H Phi_nn{" Phi_nn" if len(ms) == 2 else ""} w', s.loc, '',
                  f'{st["sub"]!r}: conj(w) must enter the row index of the first PSD factor, w the column index of the last, factors chained column-to-row',
                  construct=f'R-EIN::{q}::chain-{len(ms)}')
    ret = strip_views(g.ret)
    okr = False
    if ret.op == 'binop' and ret.args[0] == 'Mult':
        v, gterm = ret.args[1], ret.args[2]
        if not (strip_views(v).op == 'param' and strip_views(v).args[0] == 'vector'):
            v, gterm = gterm, v          # the product commutes
        # |gain[..., None]| and |gain|[..., None] are the same
        inner = None
        if is_call_to(gterm, 'numpy.abs', 'numpy.absolute'):
            inner = trailing_none(call_arg(gterm, 0))
        elif trailing_none(gterm) is not None and is_call_to(strip_views(trailing_none(gterm)), 'numpy.abs', 'numpy.absolute'):
            inner = call_arg(strip_views(trailing_none(gterm)), 0)
        if strip_views(v).op == 'param' and strip_views(v).args[0] == 'vector' and inner is not None:
            dv = strip_views(inner) if inner is not None else None
            num = den = None
            if dv is not None and is_call_to(dv, 'numpy.divide'):
                num, den = call_arg(dv, 0), call_arg(dv, 1)
            elif dv is not None and dv.op == 'store' and strip_views(dv.args[2]).op == 'binop' and strip_views(dv.args[2]).args[0] == 'Div':
                # out-of-place form: normalization = zeros; normalization[valid] = nominator[valid] / denominator[valid]
                q_ = strip_views(dv.args[2])
                num, den = strip_views(q_.args[1]), strip_views(q_.args[2])
                # both sides are read through the same mask as the store
                if num.op == 'sub' and den.op == 'sub' and struct_eq(num.args[1], den.args[1]) and struct_eq(num.args[1], dv.args[1]):
                    num, den = num.args[0], den.args[0]
                else:
                    num = den = None
            okr = num is not None and den is not None
            if okr:
                two = [s for s in sites if len(s.operands) == 4]
                one = [s for s in sites if len(s.operands) == 3]
                okr = bool(two) and bool(one) and any(x is two[0].term for x in walk_terms(num)) and any(x is one[0].term for x in walk_terms(den)) \
                    and not any(x is one[0].term for x in walk_terms(num))
                if okr:
                    # numerator sqrt(w^H Phi Phi w), denominator |w^H Phi w| (a magnitude: abs(q), sqrt(q conj(q)), or q itself / its real part - the form is Hermitian)
                    from ..walk import abs_square_operand
                    d0, n0 = strip_views(den), strip_views(num)
                    q3, q4 = one[0].term, two[0].term
                    through = lambda z: strip_views(call_arg(strip_views(z), 0)) if is_call_to(strip_views(z), 'numpy.asarray', 'numpy.array') else strip_views(z)
                    d0, n0 = through(d0), through(n0)
                    okden = d0 is q3 or (d0.op == 'attr' and d0.args[1] == 'real' and strip_views(d0.args[0]) is q3) or (is_call_to(d0, 'numpy.abs') and through(call_arg(d0, 0)) is q3) or \
                        (is_call_to(d0, 'numpy.sqrt') and abs_square_operand(call_arg(d0, 0)) is not None and through(abs_square_operand(call_arg(d0, 0))) is q3)
                    oknum = is_call_to(n0, 'numpy.sqrt') and (through(call_arg(n0, 0)) is q4 or (strip_views(call_arg(n0, 0)).op == 'attr' and strip_views(strip_views(call_arg(n0, 0)).args[0]) is q4)
                                                              or (is_call_to(strip_views(call_arg(n0, 0)), 'numpy.abs') and through(call_arg(strip_views(call_arg(n0, 0)), 0)) is q4))
                    run.check(okden and oknum, 'SHAPE', 'BAN: gain = sqrt(w^H Phi Phi w) / |w^H Phi w|', fn.loc(dv.node), '',
                              f'numerator is the square root of the two-factor form: {oknum}; denominator is the magnitude of the one-factor form: {okden}',
                              construct=f'SHAPE::{q}::gain-form')
    run.check(okr, 'SHAPE', 'BAN: vector * |gain[..., None]| with gain = sqrt(w^H Phi Phi w) / |w^H Phi w|', fn.loc(), '',
              'return value is not the input vector times the absolute value of one gain per leading index (trailing singleton axis)', construct=f'SHAPE::{q}::gain')


SOLVERS = ('numpy.linalg.solve', 'scipy.linalg.solve', 'scipy.linalg.solve_triangular', 'numpy.linalg.inv', 'numpy.linalg.pinv',
           'pb_bss.math.solve::solve', 'pb_bss.math.solve::stable_solve', 'pb_bss.math.solve::_solve', 'pb_bss.math.solve::_lstsq')


def check_hermitian_factors(run, A, module_prefixes=('pb_bss.extraction.beamformer', 'pb_bss.math.solve')):
    """R-HERM: Phi = L L^H (Cholesky) and Phi = V diag(l) V^H (eigh) of a complex Hermitian matrix: the second factor is the CONJUGATE transpose of the first.  A factor
    that is transposed over its last two axes WITHOUT a conjugation and handed to a solver / inverse as the coefficient matrix (`solve(L.swapaxes(-1, -2), v)` for
    L^-H v) is L^T: the whitening is undone with the wrong matrix whenever Phi has a non-zero imaginary part; real test matrices do not show it.  Judged: transposed
    factors used as coefficient of a solver with no conjugation directly inside or outside the transposition; every other use of a transposed factor is not judged."""
    from ..walk import axis_reordering
    n = n_t = 0
    for fn in A.prog.all_funcs():
        if not any(fn.mod.name == p or fn.mod.name.startswith(p + '.') for p in module_prefixes):
            continue
        g = A.graphs.get(fn)
        seen = set()
        terms = []
        for r in [g.ret] + [e.term for e in g.events if e.term is not None]:
            if isinstance(r, T):
                terms += list(walk_terms(r, seen))

        def factor_of(x, depth=0):
            """x is (a view / copy / astype of) a Cholesky factor or an eigenvector matrix of eigh -> description"""
            x = strip_views(x)
            if not isinstance(x, T) or depth > 6:
                return None
            if is_call_to(x, 'numpy.linalg.cholesky', 'scipy.linalg.cholesky'):
                return 'Cholesky factor'
            if x.op == 'unpack' and x.args[1] == 1 and is_call_to(strip_views(x.args[0]), 'numpy.linalg.eigh', 'scipy.linalg.eigh'):
                return 'eigenvector matrix'
            nm, pos, kw = call_parts(x)
            if nm in ('method:astype', 'method:copy', 'numpy.ascontiguousarray', 'numpy.asarray', 'numpy.array') and pos:
                return factor_of(pos[0], depth + 1)
            return None
        conj_args = {strip_views(is_conj(t)[0]).id for t in terms if is_conj(t)[1]}
        coeff = {}
        for t in terms:
            nm, pos, kw = call_parts(t)
            if nm in SOLVERS and pos:
                coeff[strip_views(pos[0]).id] = (nm, t)
        for t in terms:
            ro = axis_reordering(t)
            if ro is None or ro[1] not in (('swap', frozenset((-1, -2))), ('swap', frozenset((-2, -1)))):
                continue
            x, cj = is_conj(ro[0])
            what = factor_of(x)
            if what is None:
                continue
            n_t += 1
            use = coeff.get(strip_views(t).id) or coeff.get(t.id)
            if use is None:
                continue
            n += 1
            paired = cj or strip_views(t).id in conj_args or t.id in conj_args
            run.check(paired, 'R-HERM', f'{fn.qual.split("::")[1]}: the transposed {what} handed to {use[0].split("::")[-1].split(".")[-1]} is the conjugate transpose', fn.loc(getattr(t, 'node', None)), '',
                      f'the {what} of a Hermitian matrix is transposed without a conjugation and used as the coefficient matrix of {use[0]}: for complex data the second factor '
                      f'of the decomposition is the CONJUGATE transpose (L^H, V^H); L^T differs wherever the matrix has an imaginary part',
                      construct=f'R-HERM::{fn.qual}::{what}')
    run.count('transposed Cholesky / eigenvector factors', n_t)
    run.count('... of them used as the coefficient of a solver (judged)', n)


def check(run):
    A = run.A
    run.explanation = (
        'Argument order of the generalised eigen-decomposition, direction of the eigenpair selections (arg-max column / last pair of the ascending eigh), conjugation and index '
        'structure of outer products, Phi_nn w and the two BAN chains, the trace rescaling of rank-one estimates and the shape of every scaling factor (trailing singleton axis) are '
        'decided on the term graphs of the current source. Maximality of Rayleigh quotients and rank / trace numerics are not decided; the Cython variants are not analysed.')
    run.trusted = ['scipy.linalg.eigh(a, b) solves a v = lambda b v', 'numpy.linalg.eigh ascending order']
    check_gev(run, A)
    check_pca(run, A)
    check_rank_one(run, A)
    check_ban(run, A)
    check_hermitian_factors(run, A)
    # every matrix of a stack is decomposed: a decomposition done block by block visits the last, partial block too
    from ..opt import check_block_partitions
    check_block_partitions(run, A, ('pb_bss.extraction.beamformer', 'pb_bss.math.solve'))
