"""C19 - SI-SDR and invasive SXR metrics obey their defining identities (structural parts).

  IDENT   in both SXR functions the three ratios are _sxr(S, I + N), _sxr(S, I), _sxr(S, N) with the identical S, and the
          first denominator is the sum of the other two (=> 1/SDR = 1/SIR + 1/SNR for a pure ratio function _sxr).
  SELF    the interference term excludes the own source (`n != k` filter / np.delete(., k)), stored under the same k.
  R-SEL   output selection: arg-MAX of the captured power over the complete enumeration
          permutations(range(K_target), r=K_source).
  R-SIB   return_dict protocol of input_sxr and output_sxr agrees: True -> plain keys, str -> prefixed keys, False -> tuple
          (decided by specialising both functions on the option with the constant domain).
  R-ELL   si_sdr reduces over the last axis only and has the projection form.
  FORM    set_snr factor 10 ** (-(snr - current) / 20); get_snr = 10 log10(P_X / P_N).
"""
import ast

from ..model import AnalysisError
from ..terms import T, walk_terms
from ..absint import AV, TOP, cav
from ..walk import (data_derives, ret_alts, call_parts, call_arg, is_call_to, const_val, NOVAL, strip_views, unwrap_gamma, axis_uses, same_value, struct_eq)
from ..lin import linearise, product_factors, peel

S = 'pb_bss.evaluation.sxr_module::'


def check_ratios(run, A):
    for name in ('input_sxr', 'output_sxr'):
        q = S + name
        fn = A.prog.func(q)
        g = A.graphs.get(fn)
        calls = [e.term for e in g.events if e.kind == 'call' and call_parts(e.term)[0] == S + '_sxr']
        if len(calls) != 3:
            raise AnalysisError(f'{name}: expected three _sxr ratios, found {len(calls)}')
        sig = [strip_views(call_arg(c, 0)) for c in calls]
        dens = [strip_views(call_arg(c, 1)) for c in calls]
        same_s = sig[0] is sig[1] is sig[2]
        run.check(same_s, 'IDENT', f'{name}: SDR, SIR, SNR share the same signal power', fn.loc(calls[0].node), '', 'the three ratios do not use the identical numerator', construct=f'IDENT::{q}::same-signal')
        sums = [d for d in dens if d.op == 'binop' and d.args[0] == 'Add']
        plain = [d for d in dens if not (d.op == 'binop' and d.args[0] == 'Add')]
        ok = len(sums) == 1 and len(plain) == 2
        if ok:
            parts = {id(strip_views(sums[0].args[1])), id(strip_views(sums[0].args[2]))}
            ok = parts == {id(plain[0]), id(plain[1])} and plain[0] is not plain[1]
        run.check(ok, 'IDENT', f'{name}: distortion = interference + noise (1/SDR = 1/SIR + 1/SNR)', fn.loc(calls[0].node), '',
                  'the denominator of the SDR is not the sum of exactly the SIR and SNR denominators', construct=f'IDENT::{q}::power-decomposition')
        # result order: (SDR, SIR, SNR) = (sum, interference, noise)
        if ok:
            order = [d is sums[0] for d in dens]
            run.check(order == [True, False, False], 'IDENT', f'{name}: first ratio is the SDR', fn.loc(), '', 'the ratio with the summed denominator is not bound first (SDR)', construct=f'IDENT::{q}::order')
    # _sxr is a pure ratio 10 log10(S / X)
    q = S + '_sxr'
    fn = A.prog.func(q)
    g = A.graphs.get(fn)
    r = [peel(x) for x in ret_alts(g)]
    ok = False
    if len(r) == 1:
        c, fs = product_factors(r[0])
        lg = [f for f in fs if is_call_to(peel(f), 'numpy.log10')]
        if abs(c - 10.0) < 1e-12 and len(lg) == 1 and len(fs) == 1:
            a = peel(call_arg(peel(lg[0]), 0))
            ok = a.op == 'binop' and a.args[0] == 'Div' and strip_views(a.args[1]).op == 'param' and strip_views(a.args[1]).args[0] == 'S' and strip_views(a.args[2]).op == 'param'
    run.check(ok, 'IDENT', '_sxr: 10 log10(S / X)', fn.loc(), '', '_sxr is not the pure ratio 10*log10(S / X)', construct=f'IDENT::{q}::ratio')


def check_self_exclusion(run, A):
    # input_sxr: I[k, d] = sum(S[[n for n in range(K) if n != k], d])
    q = S + 'input_sxr'
    fn = A.prog.func(q)
    ok = False
    for node in ast.walk(fn.node):
        if isinstance(node, ast.Assign) and isinstance(node.targets[0], ast.Subscript) and isinstance(node.targets[0].slice, ast.Tuple):
            tgt = node.targets[0]
            k = tgt.slice.elts[0]
            comps = [c for c in ast.walk(node.value) if isinstance(c, ast.ListComp)]
            for c in comps:
                gen = c.generators[0]
                if len(gen.ifs) == 1 and isinstance(gen.ifs[0], ast.Compare) and isinstance(gen.ifs[0].ops[0], ast.NotEq):
                    l, r = gen.ifs[0].left, gen.ifs[0].comparators[0]
                    names = {ast.unparse(l), ast.unparse(r)}
                    full = ast.unparse(gen.iter).replace(' ', '') == 'range(K)'
                    ok = isinstance(k, ast.Name) and names == {k.id, ast.unparse(gen.target)} and full and isinstance(c.elt, ast.Name) and c.elt.id == ast.unparse(gen.target)
    run.check(ok, 'SELF', 'input_sxr: interference of source k sums all sources n != k', fn.loc(), '', 'the interference power of source k does not exclude exactly the own source',
              construct=f'SELF::{q}::exclusion')
    q = S + 'output_sxr'
    fn = A.prog.func(q)
    ok = False
    for node in ast.walk(fn.node):
        if isinstance(node, ast.Assign) and isinstance(node.targets[0], ast.Subscript):
            k = node.targets[0].slice
            dels = [c for c in ast.walk(node.value) if isinstance(c, ast.Call) and ast.unparse(c.func).endswith('delete')]
            for c in dels:
                if len(c.args) >= 2 and isinstance(k, ast.Name) and isinstance(c.args[1], ast.Name) and c.args[1].id == k.id:
                    ax = [kw.value for kw in c.keywords if kw.arg == 'axis']
                    col = ast.unparse(c.args[0]).replace(' ', '')
                    ok = (not ax or ast.unparse(ax[0]) == '0') and col.startswith('S[:,selection[') and f'[{k.id}]' in col
    run.check(ok, 'SELF', 'output_sxr: interference at the selected output excludes the own source', fn.loc(), '',
              'II[k] is not the sum of S[:, selection[k]] with row k deleted', construct=f'SELF::{q}::exclusion')


def check_selection(run, A):
    q = S + 'output_sxr'
    fn = A.prog.func(q)
    g = A.graphs.get(fn)
    perms = [e.term for e in g.events if e.kind == 'call' and is_call_to(e.term, 'itertools.permutations')]
    ok = bool(perms)
    if ok:
        rng = strip_views(call_arg(perms[0], 0))
        r = call_arg(perms[0], 1, 'r')
        ok = is_call_to(rng, 'builtin.range') and len(call_parts(rng)[1]) == 1 and strip_views(call_arg(rng, 0)).op == 'unpack' and strip_views(call_arg(rng, 0)).args[4] == 'K_target' \
            and r is not None and strip_views(r).op == 'unpack' and strip_views(r).args[4] == 'K_source'
    run.check(ok, 'R-SEL', 'output_sxr: every selection of K_source out of K_target outputs is enumerated', fn.loc(), '',
              'the candidate set is not permutations(range(K_target), r=K_source)', construct=f'R-SEL::{q}::enumeration')
    am = [e.term for e in g.events if e.kind == 'call' and call_parts(e.term)[0] in ('numpy.argmax', 'numpy.argmin')]
    okm = len(am) == 1 and is_call_to(am[0], 'numpy.argmax')
    run.check(okm, 'R-SEL', 'output_sxr: selection MAXIMISES the captured source power', fn.loc(), '', 'selection is not np.argmax of the mutual power', construct=f'R-SEL::{q}::argmax')
    # selection = all_target_selections[max_idx] and mutual power = sum_k S[k, sel[p, k]]
    sel_ok = False
    for node in ast.walk(fn.node):
        if isinstance(node, ast.Assign) and isinstance(node.value, ast.Subscript) and isinstance(node.targets[0], ast.Name) and node.targets[0].id == 'selection':
            sel_ok = ast.unparse(node.value).replace(' ', '') == 'all_target_selections[max_idx]'
    mp_ok = False
    for node in ast.walk(fn.node):
        if isinstance(node, ast.Assign) and isinstance(node.targets[0], ast.Subscript) and ast.unparse(node.targets[0].value) == 'mutual_power':
            txt = ast.unparse(node.value).replace(' ', '')
            mp_ok = 'S[k_source,all_target_selections[p,k_source]]' in txt and 'range(K_source)' in txt and 'sum' in txt
    run.check(sel_ok and mp_ok, 'R-SEL', 'output_sxr: criterion = sum_k S[k, selection[k]], winner is what is used', fn.loc(), '',
              f'selection taken from the arg-max: {sel_ok}; mutual power is the captured diagonal power: {mp_ok}', construct=f'R-SEL::{q}::criterion')
    # noise of the selected outputs
    nn = any(isinstance(n, ast.Assign) and ast.unparse(n.value).replace(' ', '') == 'N[selection]' for n in ast.walk(fn.node))
    run.check(nn, 'R-SEL', 'output_sxr: noise power taken at the selected outputs', fn.loc(), '', 'NN is not N[selection]', construct=f'R-SEL::{q}::noise-selection')


def check_return_dict(run, A):
    for name in ('input_sxr', 'output_sxr'):
        q = S + name
        fn = A.prog.func(q)
        outs = {}
        for label, val in (('True', True), ("'pre_'", 'pre_'), ('False', False)):
            ev = A.fresh_evaluator()
            ctx = ev.entry(fn, overrides={'return_dict': cav(val)})
            r = ctx.result
            kinds = r.kind if r.kind is not TOP else frozenset(['?'])
            outs[label] = kinds
        run.check(outs['True'] == frozenset(['dict']), 'R-SIB', f'{name}(return_dict=True) returns a dict', fn.loc(), '', f'result kind {sorted(outs["True"])}', construct=f'R-SIB::{q}::dict-true')
        run.check(outs["'pre_'"] == frozenset(['dict']), 'R-SIB', f'{name}(return_dict=<prefix string>) returns a dict with prefixed keys', fn.loc(), '',
                  f'with a prefix string the function returns {sorted(outs["\'pre_\'"])}: the prefix branch is unreachable', construct=f'R-SIB::{q}::dict-prefix')
        run.check(outs['False'] == frozenset(['tuple']), 'R-SIB', f'{name}(return_dict=False) returns the result tuple', fn.loc(), '', f'result kind {sorted(outs["False"])}',
                  construct=f'R-SIB::{q}::tuple-false')
        # keys
        g = A.graphs.get(fn)
        dicts = [strip_views(x) for x in ret_alts(g) if strip_views(x).op == 'dict']
        plain = prefixed = False
        for d in dicts:
            ks = d.args[0]
            if all(isinstance(const_val(k), str) for k in ks):
                plain = sorted(const_val(k) for k in ks) == ['sdr', 'sir', 'snr']
            else:
                okp = True
                suff = []
                for k in ks:
                    k = strip_views(k)
                    if k.op == 'binop' and k.args[0] == 'Add' and strip_views(k.args[1]).op in ('param', 'refine') and isinstance(const_val(k.args[2]), str):
                        suff.append(const_val(k.args[2]))
                    else:
                        okp = False
                prefixed = okp and sorted(suff) == ['sdr', 'sir', 'snr']
        run.check(plain and prefixed, 'R-SIB', f'{name}: dict keys sdr/sir/snr, optionally prefixed', fn.loc(), '', f'plain keys ok: {plain}; prefixed keys ok: {prefixed}', construct=f'R-SIB::{q}::keys')


def check_si_sdr(run, A):
    q = 'pb_bss.evaluation.module_si_sdr::si_sdr'
    fn = A.prog.func(q)
    g = A.graphs.get(fn)
    uses = axis_uses(g)
    n = 0
    for t, opnd, ax, cname, e in uses:
        if cname == 'numpy.broadcast_arrays':
            continue
        n += 1
        v = const_val(ax) if ax is not None else None
        run.check(v == -1, 'R-ELL', f'si_sdr: {cname.split(".")[-1]} over the last axis only', fn.loc(t.node), '', f'reduction over axis {v!r}: leading indices are no longer independent',
                  construct=f'R-ELL::{q}::axis')
    if n < 4:
        raise AnalysisError('si_sdr: reductions not found')
    r = [peel(x) for x in ret_alts(g)]
    ok = False
    if len(r) == 1:
        c, fs = product_factors(r[0])
        lg = [f for f in fs if is_call_to(peel(f), 'numpy.log10')]
        if abs(c - 10.0) < 1e-12 and len(lg) == 1:
            ratio = peel(call_arg(peel(lg[0]), 0))
            if ratio.op == 'binop' and ratio.args[0] == 'Div':
                num, den = peel(ratio.args[1]), peel(ratio.args[2])
                # num = sum(projection**2), den = sum(noise**2), noise = estimation - projection, projection = alpha * reference
                def sq_of(t_):
                    if is_call_to(t_, 'numpy.sum'):
                        a = peel(call_arg(t_, 0))
                        if a.op == 'binop' and a.args[0] == 'Pow' and const_val(a.args[2]) == 2:
                            return peel(a.args[1])
                    return None
                proj, noise = sq_of(num), sq_of(den)
                if proj is not None and noise is not None and noise.op == 'binop' and noise.args[0] == 'Sub':
                    ok = peel(noise.args[2]) is proj and proj.op == 'binop' and proj.args[0] == 'Mult'
                    if ok:
                        alpha = [x for x in (peel(proj.args[1]), peel(proj.args[2])) if x.op == 'binop' and x.args[0] == 'Div']
                        ok = len(alpha) == 1 and is_call_to(peel(alpha[0].args[1]), 'numpy.sum') and is_call_to(peel(alpha[0].args[2]), 'numpy.sum')
    run.check(ok, 'FORM', 'si_sdr: 10 log10(|alpha s|^2 / |s_hat - alpha s|^2) with alpha = <s, s_hat> / |s|^2', fn.loc(), '', 'projection form not recognised', construct=f'FORM::{q}::projection')


def check_snr(run, A):
    q = S + 'set_snr'
    fn = A.prog.func(q)
    g = A.graphs.get(fn)
    pw = [t for e in g.events if e.term is not None for t in walk_terms(e.term) if t.op == 'binop' and t.args[0] == 'Pow' and const_val(t.args[1]) == 10]
    ok = False
    if pw:
        ex = peel(pw[0].args[2])
        alts = linearise(ex)
        ok = bool(alts)
        for a in alts:
            snr_c = [p.coef for p in a if any(strip_views(f).op == 'param' and strip_views(f).args[0] == 'snr' for f in p.factors)]
            other = [p.coef for p in a if not any(strip_views(f).op == 'param' and strip_views(f).args[0] == 'snr' for f in p.factors)]
            ok = ok and len(snr_c) == 1 and abs(snr_c[0] + 1 / 20) < 1e-12 and len(other) == 1 and abs(other[0] - 1 / 20) < 1e-12
    run.check(ok, 'FORM', 'set_snr: noise factor 10 ** (-(snr - current_snr) / 20)', fn.loc(), '', 'rescaling factor does not have exponent -(snr - current)/20', construct=f'FORM::{q}::factor')
    q = S + 'get_snr'
    fn = A.prog.func(q)
    g = A.graphs.get(fn)
    r = [peel(x) for x in ret_alts(g)]
    ok = False
    if len(r) == 1:
        c, fs = product_factors(r[0])
        lg = [f for f in fs if is_call_to(peel(f), 'numpy.log10')]
        if abs(c - 10.0) < 1e-12 and lg:
            a = peel(call_arg(peel(lg[0]), 0))
            ok = a.op == 'binop' and a.args[0] == 'Div' and data_derives(a.args[1], 'X') and not data_derives(a.args[1], 'N') and data_derives(a.args[2], 'N') and not data_derives(a.args[2], 'X')
    run.check(ok, 'FORM', 'get_snr: 10 log10(P_X / P_N)', fn.loc(), '', 'get_snr is not 10*log10(power(X)/power(N))', construct=f'FORM::{q}::ratio')


def check(run):
    A = run.A
    run.explanation = (
        'Structural identities of the metrics decided on the source: both SXR functions compute _sxr(S, I+N), _sxr(S, I), _sxr(S, N) with the identical S and the first denominator being '
        'the sum of the other two (power decomposition for a pure ratio _sxr); own-source exclusion of the interference; complete enumeration and arg-MAX selection of the outputs; the '
        'return_dict protocol of both siblings by specialising on True / prefix string / False with the constant domain; last-axis-only reductions and projection form of si_sdr; exponent of '
        'the set_snr factor. dB values and scaling laws as numbers are not decided.')
    run.trusted = ['metric definitions in the property statement']
    check_ratios(run, A)
    check_self_exclusion(run, A)
    check_selection(run, A)
    check_return_dict(run, A)
    check_si_sdr(run, A)
    check_snr(run, A)
