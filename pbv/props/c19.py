"""C19 - SI-SDR and invasive SXR metrics obey their defining identities (structural parts).

  IDENT   in both SXR functions the three ratios are _sxr(S, I + N), _sxr(S, I), _sxr(S, N) with the identical S, and the
          first denominator is the sum of the other two (=> 1/SDR = 1/SIR + 1/SNR for a pure ratio function _sxr).
  SELF    the interference term excludes the own source (`n != k` filter / np.delete(., k)), stored under the same k.
  R-SEL   output selection: arg-MAX of the captured power over the complete enumeration
          permutations(range(K_target), r=K_source).
  R-SIB   return_dict protocol of input_sxr and output_sxr agrees: True -> plain keys, str -> prefixed keys, False -> tuple
          (decided by specialising both functions on the option with the constant domain).
  R-ELL   si_sdr reduces over the last axis only and has the projection form.
  FORM    set_snr factor 10 ** (-(snr - current) / 20); get_snr = 10 log10(P_X / P_N).
"""
import ast

from ..model import AnalysisError
from ..terms import T, walk_terms
from ..absint import AV, TOP, cav
from ..walk import norm_stmt
from ..walk import (dead_leaf, data_derives, ret_alts, call_parts, call_arg, is_call_to, const_val, NOVAL, strip_views, unwrap_gamma, axis_uses, same_value, struct_eq, cond_polarity, loop_role, index_chain, is_full_slice, last_axis_product_sum, index_extent, indexed_values, gamma_paths, possible_consts)
from ..lin import linearise, product_factors, peel

S = 'pb_bss.evaluation.sxr_module::'


from . import c20


def check_ratios(run, A):
    for name in ('input_sxr', 'output_sxr'):
        q = S + name
        fn = A.prog.func(q)
        g = A.graphs.get(fn)
        evs = [e for e in g.events if e.kind == 'call' and call_parts(e.term)[0] == S + '_sxr']
        # one triple per alternative of the function (the three ratios may be written once per branch of an option, or once for a value selected by the option)
        groups = {}
        for e in evs:
            groups.setdefault(tuple((id(c), p) for c, p in e.guards), []).append(e.term)
        if not groups or any(len(v) != 3 for v in groups.values()):
            raise AnalysisError(f'{name}: expected three _sxr ratios (per alternative), found {[len(v) for v in groups.values()] or 0}')
        sdr_calls, other_calls = [], []
        all_ok = True
        for calls in groups.values():
            sig = [strip_views(call_arg(c, 0)) for c in calls]
            dens = [strip_views(call_arg(c, 1)) for c in calls]
            same_s = sig[0] is sig[1] is sig[2]
            run.check(same_s, 'IDENT', f'{name}: SDR, SIR, SNR share the same signal power', fn.loc(calls[0].node), '', 'the three ratios do not use the identical numerator', construct=f'IDENT::{q}::same-signal')
            sums = [d for d in dens if d.op == 'binop' and d.args[0] == 'Add']
            plain = [d for d in dens if not (d.op == 'binop' and d.args[0] == 'Add')]
            ok = len(sums) == 1 and len(plain) == 2
            if ok:
                parts = {id(strip_views(sums[0].args[1])), id(strip_views(sums[0].args[2]))}
                ok = parts == {id(plain[0]), id(plain[1])} and plain[0] is not plain[1]
            run.check(ok, 'IDENT', f'{name}: distortion = interference + noise (1/SDR = 1/SIR + 1/SNR)', fn.loc(calls[0].node), '',
                      'the denominator of the SDR is not the sum of exactly the SIR and SNR denominators', construct=f'IDENT::{q}::power-decomposition')
            all_ok = all_ok and ok
            if ok:
                sdr = calls[dens.index(sums[0])]
                sdr_calls.append(sdr)
                other_calls += [c for c in calls if c is not sdr]
        # which ratio is reported as SDR: the one with the summed denominator (first field of the result tuple / key 'sdr')
        if all_ok:
            reported = []
            for r in ret_alts(g):
                r = strip_views(r)
                n_, pos, kw = call_parts(r)
                if r.op == 'dict':
                    for k, v in zip(r.args[0], r.args[1]):
                        kv = const_val(k)
                        if kv == 'sdr' or (strip_views(k).op == 'binop' and const_val(strip_views(k).args[2]) == 'sdr'):
                            reported.append(v)
                elif r.op == 'call' and pos:
                    reported.append(pos[0])
                elif r.op == 'tuple' and r.args[0]:
                    reported.append(r.args[0][0])          # ResultTuple(sdr, sir, snr) of a record type
            okr = bool(reported) and all(any(x is c for c in sdr_calls for x in walk_terms(v)) for v in reported)
            okr = okr and all(not any(x is c for c in other_calls for x in walk_terms(v)) for v in reported)
            run.check(okr, 'IDENT', f'{name}: the ratio over interference + noise is what is reported as SDR', fn.loc(), '', 'the value reported as SDR is not the ratio with the summed denominator',
                      construct=f'IDENT::{q}::order')
    # _sxr is a pure ratio 10 log10(S / X)
    q = S + '_sxr'
    fn = A.prog.func(q)
    g = A.graphs.get(fn)
    r = [peel(x) for x in ret_alts(g)]
    ok = False
    _pp = [p_ for p_ in fn.params if p_ not in ('self', 'cls')]
    if len(_pp) != 2:
        raise AnalysisError(f'{q}: two parameters (signal power, distortion power) expected, found {_pp}')
    if len(r) == 1:
        c, fs = product_factors(r[0])
        lg = [f for f in fs if is_call_to(peel(f), 'numpy.log10')]
        if abs(c - 10.0) < 1e-12 and len(lg) == 1 and len(fs) == 1:
            a = peel(call_arg(peel(lg[0]), 0))
            ok = a.op == 'binop' and a.args[0] == 'Div' and strip_views(a.args[1]).op == 'param' and strip_views(a.args[1]).args[0] == _pp[0] and strip_views(a.args[2]).op == 'param' and strip_views(a.args[2]).args[0] == _pp[1]
    run.check(ok, 'IDENT', '_sxr: 10 log10(S / X)', fn.loc(), '', '_sxr is not the pure ratio 10*log10(S / X)', construct=f'IDENT::{q}::ratio')


def _sum_parts(t):
    t0 = strip_views(t)
    if t0.op == 'binop' and t0.args[0] == 'Add':
        return _sum_parts(t0.args[1]) + _sum_parts(t0.args[2])
    return [t]


def check_pooling(run, A):
    """ORDER (input_sxr): the sensors are pooled in the power domain.  The identity 1/SDR = 1/SIR + 1/SNR is a statement about three
    ratios of ONE triple of powers; with `average_channels` (the default) that triple is the mean of S, I, N over the sensor axis, formed
    before the ratios.  A dB value - the result of `_sxr` - may be averaged over the source axis (average_sources) but not over the
    sensors: the mean of logarithms of per-sensor ratios is not the ratio of any common triple."""
    q = S + 'input_sxr'
    fn = A.prog.func(q)
    g = A.graphs.get(fn)
    if 'average_channels' not in fn.params:
        raise AnalysisError('input_sxr: option average_channels vanished')
    call_events = [e for e in g.events if e.kind == 'call' and call_parts(e.term)[0] == S + '_sxr']
    n, bad = 0, []
    for ce in call_events:
        c = ce.term
        # the option may select the operands (a conditional inside the operand) or the whole triple of ratios (the call sits in a branch of the option)
        under = {id(ct): (ct, pol) for ct, pol in ce.guards}
        for pos in (0, 1):
            for part in _sum_parts(call_arg(c, pos)):
                pooled, unpooled_under_option, other = 0, [], []
                for conds, leaf in gamma_paths(part, under):
                    on = [pol for (ct, pol) in conds.values() if strip_views(ct).op == 'param' and strip_views(ct).args[0] == 'average_channels']
                    leaf0 = strip_views(leaf)
                    # np.sum(p, axis) / D with D the number of sensors is the mean
                    if leaf0.op == 'binop' and leaf0.args[0] == 'Div' and is_call_to(strip_views(leaf0.args[1]), 'numpy.sum') and _is_sensor_count(leaf0.args[2]):
                        leaf0 = strip_views(leaf0.args[1])
                    red = is_call_to(leaf0, 'numpy.mean', 'method:mean', 'numpy.average', 'numpy.sum') and (is_call_to(leaf0, 'numpy.mean', 'numpy.average') or leaf0 is not strip_views(leaf))
                    if on and on[0]:
                        ax = call_arg(leaf0, 1, 'axis') if red else None
                        axs = possible_consts(ax) if ax is not None else None
                        if red and axs is not None and axs <= {-1, 1} and not data_derives_call(call_arg(leaf0, 0), S + '_sxr'):
                            pooled += 1
                        elif red and axs is not None and axs <= {-1, 0} and data_derives(call_arg(leaf0, 0), 'noise') and not data_derives(call_arg(leaf0, 0), 'images'):
                            pooled += 1     # the noise power has the sensor axis only
                        elif red and axs is not None:
                            unpooled_under_option.append(f'mean over axis {sorted(axs)}')
                        else:
                            other.append(leaf0)
                    elif not on:
                        unpooled_under_option.append('the operand does not depend on average_channels')
                n += 1
                if under and all(not pol for ct, pol in under.values() if strip_views(ct).op == 'param' and strip_views(ct).args[0] == 'average_channels') and \
                        any(strip_views(ct).op == 'param' and strip_views(ct).args[0] == 'average_channels' for ct, _p in under.values()):
                    continue          # the triple of the branch without pooling
                if other and not unpooled_under_option:
                    raise AnalysisError(f'input_sxr: the pooling of a power under average_channels is no longer recognised ({other[0]!r:.120})')
                if not (pooled >= 1 and not unpooled_under_option):
                    bad.append((c, unpooled_under_option))
    if n < 6:
        raise AnalysisError(f'input_sxr: expected the operands S, I, N of three ratios, found {n}')
    run.check(not bad, 'ORDER', 'input_sxr: with average_channels the powers are pooled over the sensors before the ratio', fn.loc(bad[0][0].node if bad else None), '',
              f'{len(bad)} operand(s) of _sxr are not the sensor mean of a power when average_channels holds: ' + '; '.join((bad[0][1] if bad else [])[:2]),
              construct=f'ORDER::{q}::pooled-before-ratio')
    run.count('C19 power operands of _sxr examined (pooling)', n)
    # no reduction of a dB value over the sensor axis
    m = 0
    for t, operand, ax, name, e in axis_uses(g):
        if operand is None or not data_derives_call(operand, S + '_sxr'):
            continue
        m += 1
        axs = possible_consts(ax) if ax is not None else {None}
        if axs is None:
            raise AnalysisError(f'input_sxr: axis of a reduction of the dB values is not resolvable at line {t.lineno}')
        run.check(axs <= {0, -2}, 'ORDER', 'input_sxr: dB values are averaged over the source axis only', fn.loc(t.node), '',
                  f'a ratio in dB is reduced over axis {sorted(axs, key=str)}: sensors must be pooled in the power domain (1/SDR = 1/SIR + 1/SNR needs one common power triple)',
                  construct=f'ORDER::{q}::db-reduced-over-sensors')
    run.count('C19 reductions of dB values examined', m)


def _is_sensor_count(t):
    """D of `K, D, T = images.shape` / images.shape[1] / images.shape[-2] / noise.shape[0]"""
    t = strip_views(t)
    if _dim_of(t, 'images', 1):
        return True
    if t.op == 'sub' and t.args[0].op == 'attr' and t.args[0].args[1] == 'shape' and strip_views(t.args[0].args[0]).op == 'param':
        pn, ix = strip_views(t.args[0].args[0]).args[0], const_val(t.args[1])
        return (pn == 'images' and ix in (1, -2)) or (pn == 'noise' and ix in (0, -2))
    return False


def data_derives_call(t, callee):
    return t is not None and any(x.op == 'call' and call_parts(x)[0] == callee for x in walk_terms(t))


def _dim_of(t, pname, index):
    """t == <pname>.shape unpacked at position `index` (of 3)"""
    t = strip_views(t)
    return t.op == 'unpack' and t.args[1] == index and t.args[0].op == 'attr' and t.args[0].args[1] == 'shape' and strip_views(t.args[0].args[0]).op == 'param' \
        and strip_views(t.args[0].args[0]).args[0] == pname


def _range_over(t, pred):
    t = strip_views(t)
    return is_call_to(t, 'builtin.range') and len(call_parts(t)[1]) == 1 and pred(call_arg(t, 0))


def _loop_elem(t):
    t = strip_views(t)
    return t if t.op == 'elem' else None


def _power_of(t, pname):
    """t == get_variance_for_zero_mean_signal(<pname>, axis=-1)"""
    t = strip_views(t)
    return call_parts(t)[0] == S + 'get_variance_for_zero_mean_signal' and strip_views(call_arg(t, 0)).op == 'param' and strip_views(call_arg(t, 0)).args[0] == pname \
        and const_val(call_arg(t, None, 'axis')) == -1


def _extent_is_dim(lp, pname, index):
    """the running index `lp` ranges over axis `index` (of 3) of <pname>.shape"""
    ext = index_extent(lp)
    if isinstance(ext, tuple) and ext and ext[0] == 'len':
        # for k, row in enumerate(X) / for row in X: the first axis of X
        xs = ext[1] if isinstance(ext[1], tuple) else (ext[1],)
        for x in xs:
            x = strip_views(x)
            while x.op in ('mu', 'store'):
                x = strip_views(x.args[0])
            if is_call_to(x, 'numpy.zeros', 'numpy.ones', 'numpy.empty', 'numpy.full'):
                shp = strip_views(call_arg(x, 0, 'shape'))
                first = shp.args[0][0] if shp.op in ('tuple', 'list') and shp.args[0] else shp
                if isinstance(first, T) and _dim_of(first, pname, index):
                    return True
            if index == 0 and (_power_of(x, pname) or (x.op == 'param' and x.args[0] == pname)):
                return True
        return False
    return isinstance(ext, T) and _dim_of(ext, pname, index)


def _exclusion_by_subtraction(run, g, fn, q, what):
    from ..walk import norm_stmt
    """the interference written as TOTAL - OWN (`np.sum(P, axis=0) - P`): mathematically the sum over the other sources, numerically a difference of nearly equal numbers as
    soon as one source dominates - the interference of the dominant source is rounding noise, zero or negative, and its SIR is inf / NaN.  Reported as a deviation."""
    hits = []
    for e in g.events:
        if e.kind != 'call' or not (call_parts(e.term)[0] or '').endswith('::_sxr'):
            continue
        for t in walk_terms(call_arg(e.term, 1)):
            if t.op == 'binop' and t.args[0] == 'Sub':
                a, b = strip_views(t.args[1]), strip_views(t.args[2])
                if is_call_to(a, 'numpy.sum') and const_val(call_arg(a, None, 'axis')) in (0, (0,)) and \
                        any(call_parts(x)[0] == S + 'get_variance_for_zero_mean_signal' for x in walk_terms(a)) and \
                        any(call_parts(x)[0] == S + 'get_variance_for_zero_mean_signal' for x in walk_terms(b)):
                    hits.append(t)
    seen = set()
    for t in hits:
        if t.id in seen:
            continue
        seen.add(t.id)
        run.violation('SELF', f'{what}: the interference power is a SUM of the other sources\' powers', fn.loc(getattr(t, 'node', None)),
                      f'`{norm_stmt(t.node) if getattr(t, "node", None) is not None else "total - own"}` takes the interference as total minus own power: with one dominant source the '
                      f'difference of two nearly equal numbers is rounding noise (zero or negative), SIR and SDR of that source become inf / NaN; the sum over the other '
                      f'sources is exact', construct=f'SELF::{q}::exclusion-by-subtraction')
    return bool(seen)


def check_self_exclusion(run, A):
    # input_sxr: I[k, d] = sum(S[[n for n in range(K) if n != k], d], axis=0)     for every source k and sensor d
    q = S + 'input_sxr'
    fn = A.prog.func(q)
    g = A.graphs.get(fn)
    ok = False
    cands = 0
    for idx, val, node in indexed_values(g):
        val = strip_views(val)
        if len(idx) not in (1, 2) or not is_call_to(val, 'numpy.sum'):
            continue
        # I[k, d] = ... per sensor, or I[k, :] = ... with all sensors at once (dL None: the column of the power is the full slice)
        kL, dL = idx if len(idx) == 2 else (idx[0], None)
        inner0 = strip_views(call_arg(val, 0))
        if is_call_to(inner0, 'numpy.delete'):
            # the same sum written as "column d with row k deleted"
            base, items = index_chain(call_arg(inner0, 0))
            if _power_of(base, 'images') and len(items) == 2:
                cands += 1
                ir = loop_role(call_arg(inner0, 1))
                ok = ok or (is_full_slice(items[0]) and (items[1] == ('index', dL) if dL is not None else is_full_slice(items[1])) and ir is not None and ir[0] == 'index' and ir[1] is kL
                            and const_val(call_arg(inner0, None, 'axis')) in (0,) and _extent_is_dim(kL, 'images', 0) and const_val(call_arg(val, None, 'axis')) in (0, NOVAL))
            continue
        base, items = index_chain(call_arg(val, 0))
        if not _power_of(base, 'images') or len(items) != 2:
            continue
        cands += 1
        rows, col = items
        if not isinstance(rows, T) or rows.op != 'comp' or not (col == ('index', dL) if dL is not None else is_full_slice(col)):
            continue
        kind, elts, iters, conds = rows.args
        full = len(iters) == 1 and _range_over(iters[0], lambda x: _dim_of(x, 'images', 0))
        elt = strip_views(elts[0]) if len(elts) == 1 else None
        elt_is_n = elt is not None and elt.op == 'elem' and elt.args[0] is iters[0]
        cnd, cpol = cond_polarity(conds[0]) if len(conds) == 1 else (None, None)
        cond_ok = False
        if cnd is not None and cnd.op == 'cmp' and (cnd.args[0], cpol) in (('NotEq', True), ('Eq', False)) and elt_is_n:
            sides = [strip_views(cnd.args[1]), strip_views(cnd.args[2])]
            other = [x for x in sides if x is not elt]
            r_ = loop_role(other[0]) if len(other) == 1 else None
            cond_ok = r_ is not None and r_[0] == 'index' and r_[1] is kL
        k_full = _extent_is_dim(kL, 'images', 0)
        ok = ok or (full and elt_is_n and cond_ok and k_full and const_val(call_arg(val, None, 'axis')) in (0, NOVAL))
    if cands == 0 and _exclusion_by_subtraction(run, g, fn, q, 'input_sxr'):
        ok = cands = None
    elif cands == 0:
        raise AnalysisError('input_sxr: the interference power (a sum over rows of the source power, per source and sensor) is no longer recognised')
    if ok is not None:
      run.check(ok, 'SELF', 'input_sxr: interference of source k sums all sources n != k', fn.loc(), '', 'the interference power of source k does not exclude exactly the own source',
              construct=f'SELF::{q}::exclusion')
    # output_sxr: II[k] = sum(delete(S[:, selection[k]], k, axis=0))
    q = S + 'output_sxr'
    fn = A.prog.func(q)
    g = A.graphs.get(fn)
    ok = False
    cands = 0
    for idx, val, node in indexed_values(g):
        val = strip_views(val)
        if len(idx) != 1 or not is_call_to(val, 'numpy.sum'):
            continue
        L = idx[0]
        dl = strip_views(call_arg(val, 0))
        if not is_call_to(dl, 'numpy.delete'):
            continue
        cands += 1
        base, items = index_chain(call_arg(dl, 0))
        ir = loop_role(call_arg(dl, 1))
        okc = _power_of(base, 'image_contribution') and len(items) == 2 and is_full_slice(items[0]) and isinstance(items[1], T)
        if okc:
            # the column is selection[k] of the same running index
            sb, sit = index_chain(items[1])
            okc = bool(sit) and sit[-1] == ('index', L) and len(sit) <= 2
        ok = ok or (okc and ir is not None and ir[0] == 'index' and ir[1] is L and const_val(call_arg(dl, None, 'axis')) in (0, NOVAL))
    if cands == 0:
        # defined elementwise, but not at the running index (e.g. stored at the selected output instead of the source)?
        for e in g.events:
            if e.kind == 'store' and is_call_to(strip_views(e.term.args[2]), 'numpy.sum') and is_call_to(strip_views(call_arg(strip_views(e.term.args[2]), 0)), 'numpy.delete'):
                cands += 1
    if cands == 0 and _exclusion_by_subtraction(run, g, fn, q, 'output_sxr'):
        ok = None
    elif cands == 0:
        raise AnalysisError('output_sxr: the interference power (sum of a column of the source power with one row deleted) is no longer recognised')
    if ok is not None:
      run.check(ok, 'SELF', 'output_sxr: interference at the selected output excludes the own source', fn.loc(), '',
              'II[k] is not the sum of S[:, selection[k]] with row k deleted', construct=f'SELF::{q}::exclusion')


def check_selection(run, A):
    q = S + 'output_sxr'
    fn = A.prog.func(q)
    g = A.graphs.get(fn)
    perms = [e.term for e in g.events if e.kind == 'call' and is_call_to(e.term, 'itertools.permutations')]
    ok = bool(perms)
    if ok:
        r = call_arg(perms[0], 1, 'r')
        ok = _range_over(call_arg(perms[0], 0), lambda x: _dim_of(x, 'image_contribution', 1)) and r is not None and _dim_of(r, 'image_contribution', 0)
    run.check(ok, 'R-SEL', 'output_sxr: every selection of K_source out of K_target outputs is enumerated', fn.loc(), '',
              'the candidate set is not permutations(range(<number of outputs>), r=<number of sources>)', construct=f'R-SEL::{q}::enumeration')
    am = [e.term for e in g.events if e.kind == 'call' and call_parts(e.term)[0] in ('numpy.argmax', 'numpy.argmin')]
    okm = len(am) == 1 and is_call_to(am[0], 'numpy.argmax')
    run.check(okm, 'R-SEL', 'output_sxr: selection MAXIMISES the captured source power', fn.loc(), '', 'selection is not np.argmax of the mutual power', construct=f'R-SEL::{q}::argmax')
    # mutual power[p] = sum_k S[k, selections[p, k]]  and  selection = selections[argmax]
    sel_arr = None
    mp_ok = False
    mp_def = None
    for idx, val, node in indexed_values(g):
        val = strip_views(val)
        if len(idx) != 1 or not is_call_to(val, 'numpy.sum', 'builtin.sum'):
            continue
        Lp = idx[0]
        cp = strip_views(call_arg(val, 0))
        if cp.op == 'sub':
            # vectorised form: sum(S[arange(K_source), candidate]) with candidate the p-th enumerated selection
            base, items = index_chain(cp)
            if _power_of(base, 'image_contribution') and len(items) == 2 and isinstance(items[0], T) and isinstance(items[1], T):
                ar = strip_views(items[0])
                ok_ar = is_call_to(ar, 'numpy.arange') and len(call_parts(ar)[1]) == 1 and not call_parts(ar)[2] and _dim_of(call_arg(ar, 0), 'image_contribution', 0)
                pb, pit = index_chain(items[1])
                if ok_ar and len(pit) == 1 and pit[0] == ('index', Lp):
                    sel_arr = pb
                    mp_ok = bool(perms and any(x is perms[0] for x in walk_terms(sel_arr)))
                    mp_def = node
            continue
        if cp.op != 'comp':
            continue
        kind, elts, iters, conds = cp.args
        if len(elts) != 1 or len(iters) != 1 or conds:
            continue
        base, items = index_chain(elts[0])
        if not _power_of(base, 'image_contribution') or len(items) != 2:
            continue
        k, pick = items
        if not isinstance(pick, T):
            continue
        pb, pit = index_chain(pick)
        okp = len(pit) == 2 and pit[0] == ('index', Lp) and pit[1] == k
        # k runs over all sources: range(K_source), or the positions of the candidate row itself (its length is K_source by construction)
        okk = isinstance(k, tuple) and k[0] == 'index' and getattr(k[1], 'iter', None) is iters[0]
        if okk:
            ext = index_extent(k[1])
            members = [ext[1]] if isinstance(ext, tuple) and ext[0] == 'len' and isinstance(ext[1], T) else list(ext[1]) if isinstance(ext, tuple) and ext[0] == 'len' else []
            # range(K_source) | the positions of the candidate row itself | zip(S, candidate row): as many steps as there are sources
            okk = (isinstance(ext, T) and _dim_of(ext, 'image_contribution', 0)) or \
                any(index_chain(m_) == (pb, [('index', Lp)]) or _power_of(m_, 'image_contribution') for m_ in members)
        if okk and okp:
            sel_arr = pb
            src_ok = perms and any(x is perms[0] for x in walk_terms(sel_arr))
            mp_ok = bool(src_ok)
            mp_def = node
    mp_vec = None
    if sel_arr is None:
        # fully vectorised form: sum(S[arange(K_source), <all enumerated selections>], axis=-1) - every candidate at once
        for e_ in g.events:
            if e_.kind not in ('call', 'outcall') or not is_call_to(e_.term, 'numpy.sum') or const_val(call_arg(e_.term, None, 'axis')) != -1:
                continue
            cp = strip_views(call_arg(e_.term, 0))
            if cp.op != 'sub':
                continue
            base, items = index_chain(cp)
            if _power_of(base, 'image_contribution') and len(items) == 2 and isinstance(items[0], T) and isinstance(items[1], T):
                ar = strip_views(items[0])
                ok_ar = is_call_to(ar, 'numpy.arange') and len(call_parts(ar)[1]) == 1 and not call_parts(ar)[2] and _dim_of(call_arg(ar, 0), 'image_contribution', 0)
                cand = strip_views(items[1])
                # (the whole array of enumerated selections, not a selection of its rows)
                part = any(x.op in ('sub', 'elem') and any(y is perms[0] for y in walk_terms(x)) for x in walk_terms(cand)) if perms else True
                if ok_ar and perms and any(x is perms[0] for x in walk_terms(cand)) and not part:
                    sel_arr, mp_ok, mp_def, mp_vec = cand, True, e_.node, strip_views(e_.term)
    # ... for EVERY enumerated selection: the running index p covers the first axis of the candidate array
    if sel_arr is not None and mp_ok and mp_vec is None:
        lp_ = [idx[0] for idx, val, node in indexed_values(g) if node is mp_def and len(idx) == 1]
        ext = index_extent(lp_[0]) if lp_ else None
        full = False
        if isinstance(ext, T):
            e0 = strip_views(ext)
            full = (e0.op == 'sub' and const_val(e0.args[1]) == 0 and strip_views(e0.args[0]).op == 'attr' and strip_views(e0.args[0]).args[1] == 'shape'
                    and strip_views(strip_views(e0.args[0]).args[0]) is sel_arr) or (is_call_to(e0, 'builtin.len') and strip_views(call_arg(e0, 0)) is sel_arr)
        elif isinstance(ext, tuple) and ext[0] == 'len':
            full = isinstance(ext[1], T) and strip_views(ext[1]) is sel_arr
        run.check(full, 'R-SEL', 'output_sxr: the captured power is evaluated for every enumerated selection', fn.loc(mp_def), '',
                  'the loop over the candidates does not run over the first axis (all rows) of the enumerated selections', construct=f'R-SEL::{q}::all-candidates')
    used_ok = False
    all_terms = [x for e in g.events if e.term is not None for x in walk_terms(e.term)] + list(walk_terms(g.ret))
    if sel_arr is not None and am:
        # the signal of the chosen outputs is read through selections[argmax(mutual_power)]
        used_ok = any(x.op == 'sub' and strip_views(x.args[0]) is sel_arr and strip_views(x.args[1]) is am[0] for x in all_terms)
        # ... and the arg-max is taken over the mutual power defined above (a loop-filled array or the comprehension itself)
        src = strip_views(call_arg(am[0], 0))
        arg_ok = any(x.op == 'mu' for x in walk_terms(src)) or any(x.op == 'comp' and x.node is mp_def for x in walk_terms(src)) or \
            (mp_vec is not None and (src is mp_vec or (is_call_to(src, 'numpy.sum') and strip_views(call_arg(src, 0)) is strip_views(call_arg(mp_vec, 0)))))
        used_ok = used_ok and arg_ok
    run.check(mp_ok and used_ok, 'R-SEL', 'output_sxr: criterion = sum_k S[k, selection[k]], winner is what is used', fn.loc(), '',
              f'mutual power is the captured diagonal power of an enumerated selection: {mp_ok}; the arg-max selection is the one evaluated: {used_ok}', construct=f'R-SEL::{q}::criterion')
    # noise power at the selected outputs
    nn = False
    for t in all_terms:
        if t.op == 'sub' and _power_of(t.args[0], 'noise_contribution') and sel_arr is not None:
            ix = strip_views(t.args[1])
            nn = nn or (ix.op == 'sub' and strip_views(ix.args[0]) is sel_arr and am and strip_views(ix.args[1]) is am[0])
    run.check(nn, 'R-SEL', 'output_sxr: noise power taken at the selected outputs', fn.loc(), '', 'NN is not N[selection]', construct=f'R-SEL::{q}::noise-selection')


def check_same_postprocessing(run, A):
    """R-SIB: SDR, SIR and SNR are three values of one kind; whatever is done to one ratio after `_sxr` (the mean over the sources under average_sources) is done to all
    three in the same way - otherwise the returned triple mixes a per-source array with averages, and the averages no longer belong to the same set of sources."""
    n = 0
    for name in ('input_sxr', 'output_sxr'):
        q = S + name
        fn = A.prog.func(q)
        g = A.graphs.get(fn)

        def skeleton(t, depth=0):
            t = strip_views(t)
            if depth > 12:
                return ('?',)
            if call_parts(t)[0] == S + '_sxr':
                return ('ratio',)
            if t.op == 'gamma':
                return ('if', t.args[0].id, skeleton(t.args[1], depth + 1), skeleton(t.args[2], depth + 1))
            nm, pos, kw = call_parts(t)
            if nm is not None and pos:
                rest = tuple(repr(const_val(a)) for a in pos[1:]) + tuple(sorted((k, repr(const_val(v))) for k, v in kw.items()))
                from ..walk import canon
                return ('call', canon(nm), rest, skeleton(pos[0], depth + 1))
            if t.op in ('binop', 'iop'):
                a, b = skeleton(t.args[1], depth + 1), skeleton(t.args[2], depth + 1)
                return ('op', t.args[0], a if const_val(strip_views(t.args[1])) is NOVAL else repr(const_val(strip_views(t.args[1]))),
                        b if const_val(strip_views(t.args[2])) is NOVAL else repr(const_val(strip_views(t.args[2]))))
            return ('?',)
        for r in ret_alts(g):
            r = strip_views(r)
            vals = list(r.args[0]) if r.op == 'tuple' else list(r.args[1]) if r.op == 'dict' else []
            if len(vals) != 3:
                continue
            # the entries that are averaged are not selected by the value of the ratio itself (isfinite / isnan / a comparison of it inside np.where): SDR, SIR and SNR
            # would then be averaged over DIFFERENT sets of sources, and the averages no longer obey SDR <= min(SIR, SNR)
            selecting = None
            for v in vals:
                for x in walk_terms(v):
                    if is_call_to(x, 'numpy.isfinite', 'numpy.isnan', 'numpy.isinf', 'numpy.nanmean', 'numpy.nansum', 'numpy.ma.masked_invalid') and \
                            any(call_parts(y)[0] == S + '_sxr' for y in walk_terms(call_arg(x, 0))):
                        selecting = x
            if selecting is not None:
                n += 1
                run.violation('R-SIB', f'{name}: the sources that are averaged do not depend on the ratio that is averaged', fn.loc(getattr(selecting, 'node', None)),
                              f'`{norm_stmt(selecting.node)[:80]}` selects the entries of a ratio by their own value before the average over the sources: a source with SIR = inf '
                              f'(no cross talk) drops out of the averaged SIR but still counts in the averaged SDR - the averages are over different sets of sources and '
                              f'SDR <= min(SIR, SNR) no longer holds', construct=f'R-SIB::{q}::value-dependent-selection')
                continue
            sk = [skeleton(v) for v in vals]
            if any('?' in repr(x) for x in sk):
                run.unresolved('R-SIB', f'{name}: SDR, SIR and SNR are post-processed alike', fn.loc(getattr(r, 'node', None)), 'post-processing of a ratio not recognised')
                continue
            n += 1
            run.check(sk[0] == sk[1] == sk[2], 'R-SIB', f'{name}: SDR, SIR and SNR are post-processed alike', fn.loc(getattr(r, 'node', None)), '',
                      'the three returned ratios do not go through the same operations after _sxr (one of them misses / has an extra averaging step): the triple mixes '
                      'per-source values with averages', construct=f'R-SIB::{q}::same-postprocessing')
    run.floor('C19 returned (SDR, SIR, SNR) triples compared', n, 4)


def check_return_dict(run, A):
    for name in ('input_sxr', 'output_sxr'):
        q = S + name
        fn = A.prog.func(q)
        outs = {}
        for label, val in (('True', True), ("'pre_'", 'pre_'), ('False', False)):
            ev = A.fresh_evaluator()
            ctx = ev.entry(fn, overrides={'return_dict': cav(val)})
            r = ctx.result
            kinds = r.kind if r.kind is not TOP else frozenset(['?'])
            outs[label] = kinds
        run.check(outs['True'] == frozenset(['dict']), 'R-SIB', f'{name}(return_dict=True) returns a dict', fn.loc(), '', f'result kind {sorted(outs["True"])}', construct=f'R-SIB::{q}::dict-true')
        run.check(outs["'pre_'"] == frozenset(['dict']), 'R-SIB', f'{name}(return_dict=<prefix string>) returns a dict with prefixed keys', fn.loc(), '',
                  f'with a prefix string the function returns {sorted(outs["\'pre_\'"])}: the prefix branch is unreachable', construct=f'R-SIB::{q}::dict-prefix')
        run.check(outs['False'] == frozenset(['tuple']), 'R-SIB', f'{name}(return_dict=False) returns the result tuple', fn.loc(), '', f'result kind {sorted(outs["False"])}',
                  construct=f'R-SIB::{q}::tuple-false')
        # keys
        g = A.graphs.get(fn)
        dicts = [strip_views(x) for x in ret_alts(g) if strip_views(x).op == 'dict']
        plain = prefixed = False
        for d in dicts:
            ks = d.args[0]
            if all(isinstance(const_val(k), str) for k in ks):
                plain = plain or sorted(const_val(k) for k in ks) == ['sdr', 'sir', 'snr']
            else:
                # keys of the form <prefix> + 'sdr': the prefix is the string argument, and / or the empty string for return_dict=True
                okp = True
                suff, kinds = [], set()
                for k in ks:
                    k = strip_views(k)
                    if k.op == 'binop' and k.args[0] == 'Add' and isinstance(const_val(k.args[2]), str):
                        suff.append(const_val(k.args[2]))
                        for alt in unwrap_gamma(k.args[1]):
                            alt = strip_views(alt)
                            if alt.op == 'param':
                                kinds.add('param')
                            elif const_val(alt) == '':
                                kinds.add('empty')
                            elif not dead_leaf(alt):
                                kinds.add('?')
                    else:
                        okp = False
                good = okp and sorted(suff) == ['sdr', 'sir', 'snr'] and '?' not in kinds
                prefixed = prefixed or (good and 'param' in kinds)
                plain = plain or (good and 'empty' in kinds)
        run.check(plain and prefixed, 'R-SIB', f'{name}: dict keys sdr/sir/snr, optionally prefixed', fn.loc(), '', f'plain keys ok: {plain}; prefixed keys ok: {prefixed}', construct=f'R-SIB::{q}::keys')


def check_si_sdr(run, A):
    q = 'pb_bss.evaluation.module_si_sdr::si_sdr'
    fn = A.prog.func(q)
    g = A.graphs.get(fn)
    uses = axis_uses(g)
    n = 0
    for t, opnd, ax, cname, e in uses:
        if cname == 'numpy.broadcast_arrays':
            continue
        n += 1
        v = const_val(ax) if ax is not None else None
        run.check(v == -1, 'R-ELL', f'si_sdr: {cname.split(".")[-1]} over the last axis only', fn.loc(t.node), '', f'reduction over axis {v!r}: leading indices are no longer independent',
                  construct=f'R-ELL::{q}::axis')
    n += sum(1 for e in g.events if e.kind == 'call' and is_call_to(e.term, 'numpy.einsum') and last_axis_product_sum(e.term) is not None)
    if n < 4:
        raise AnalysisError('si_sdr: reductions not found')
    r = [peel(x) for x in ret_alts(g)]
    ok = False
    recognised = False          # the skeleton 10 log10(sum(p^2) / sum((e - p)^2)) with p = (a / b) * s was found: what is left to compare is decided either way
    if len(r) == 1:
        c, fs = product_factors(r[0])
        lg = [f for f in fs if is_call_to(peel(f), 'numpy.log10')]
        if abs(c - 10.0) < 1e-12 and len(lg) == 1:
            ratio = peel(call_arg(peel(lg[0]), 0))
            if ratio.op == 'binop' and ratio.args[0] == 'Div':
                num, den = peel(ratio.args[1]), peel(ratio.args[2])
                # num = sum(projection**2), den = sum(noise**2), noise = estimation - projection, projection = alpha * reference
                def sq_of(t_):
                    r_ = last_axis_product_sum(t_)
                    return peel(r_[0]) if r_ is not None and r_[0] is r_[1] else None
                proj, noise = sq_of(num), sq_of(den)
                recognised = proj is not None and noise is not None          # a ratio of two energies: how they are formed is decided below
                if proj is not None and noise is not None and noise.op == 'binop' and noise.args[0] == 'Sub':
                    ok = peel(noise.args[2]) is proj and proj.op == 'binop' and proj.args[0] == 'Mult'
                    if ok:
                        alpha = [x for x in (peel(proj.args[1]), peel(proj.args[2])) if x.op in ('binop', 'iop') and x.args[0] == 'Div']
                        ok = len(alpha) == 1 and last_axis_product_sum(alpha[0].args[1]) is not None and last_axis_product_sum(alpha[0].args[2]) is not None
                        if ok:
                            # alpha = <s, s_hat> / <s, s>: the denominator is the energy of the signal that is scaled
                            other = [x for x in (peel(proj.args[1]), peel(proj.args[2])) if x is not alpha[0]]
                            e_ = last_axis_product_sum(alpha[0].args[2])
                            ok = e_[0] is e_[1] and len(other) == 1 and strip_views(other[0]) is e_[0]
    if not ok and not recognised:
        run.unresolved('FORM', 'si_sdr: 10 log10(|alpha s|^2 / |s_hat - alpha s|^2) with alpha = <s, s_hat> / |s|^2', fn.loc(), 'projection form not recognised')
    else:
        run.check(ok, 'FORM', 'si_sdr: 10 log10(|alpha s|^2 / |s_hat - alpha s|^2) with alpha = <s, s_hat> / |s|^2', fn.loc(), '',
                  'numerator and denominator are energies, but not |alpha s|^2 and |s_hat - alpha s|^2 with alpha = <s, s_hat> / |s|^2', construct=f'FORM::{q}::projection')


def check_snr(run, A):
    # both SXR functions take every power (source images AND noise) over the time axis, the last one
    n_pw = 0
    for name in ('input_sxr', 'output_sxr'):
        q2 = S + name
        fn2 = A.prog.func(q2)
        for e in A.graphs.get(fn2).events:
            if e.kind == 'call' and call_parts(e.term)[0] == S + 'get_variance_for_zero_mean_signal':
                n_pw += 1
                ax = call_arg(e.term, 1, 'axis')
                run.check(ax is not None and const_val(ax) == -1, 'R-AXIS', f'{name}: `{norm_stmt(e.term.node)}` is the power over time', fn2.loc(e.term.node), '',
                          'a signal power of the SXR computation is not taken over the last (time) axis: the value per sensor / output is a mean over the wrong axis',
                          construct=f'R-AXIS::{q2}::power-axis')
    run.floor('signal powers of the SXR functions taken over time', n_pw, 4)
    q = S + 'set_snr'
    fn = A.prog.func(q)
    g = A.graphs.get(fn)
    pw = [t for e in g.events if e.term is not None for t in walk_terms(e.term) if t.op == 'binop' and t.args[0] == 'Pow' and const_val(t.args[1]) == 10]
    ok = False
    if pw:
        ex = peel(pw[0].args[2])
        alts = linearise(ex)
        ok = bool(alts)
        for a in alts:
            snr_c = [p.coef for p in a if any(strip_views(f).op == 'param' and strip_views(f).args[0] == 'snr' for f in p.factors)]
            other = [p.coef for p in a if not any(strip_views(f).op == 'param' and strip_views(f).args[0] == 'snr' for f in p.factors)]
            ok = ok and len(snr_c) == 1 and abs(snr_c[0] + 1 / 20) < 1e-12 and len(other) == 1 and abs(other[0] - 1 / 20) < 1e-12
    run.check(ok, 'FORM', 'set_snr: noise factor 10 ** (-(snr - current_snr) / 20)', fn.loc(), '', 'rescaling factor does not have exponent -(snr - current)/20', construct=f'FORM::{q}::factor')
    q = S + 'get_snr'
    fn = A.prog.func(q)
    g = A.graphs.get(fn)
    r = [peel(x) for x in ret_alts(g)]
    ok = False
    if len(r) == 1:
        c, fs = product_factors(r[0])
        lg = [f for f in fs if is_call_to(peel(f), 'numpy.log10')]
        if abs(c - 10.0) < 1e-12 and lg:
            a = peel(call_arg(peel(lg[0]), 0))
            ok = a.op == 'binop' and a.args[0] == 'Div' and data_derives(a.args[1], 'X') and not data_derives(a.args[1], 'N') and data_derives(a.args[2], 'N') and not data_derives(a.args[2], 'X')
    run.check(ok, 'FORM', 'get_snr: 10 log10(P_X / P_N)', fn.loc(), '', 'get_snr is not 10*log10(power(X)/power(N))', construct=f'FORM::{q}::ratio')


def check_power_helper(run, A):
    """FORM: the power every SXR / SNR quantity is built from is the mean of |x|^2 over the requested axis (any spelling of |x|^2), and set_snr applies its
    factor to the NOISE by multiplication (in place or returned next to the untouched target)."""
    from ..walk import abs_square_operand
    q = S + 'get_variance_for_zero_mean_signal'
    fn = A.prog.func(q)
    g = A.graphs.get(fn)
    rets = [strip_views(x) for x in ret_alts(g)]
    ok = bool(rets)
    for r in rets:
        okr = is_call_to(r, 'numpy.mean') and strip_views(call_arg(r, 1, 'axis')).op == 'param' and strip_views(call_arg(r, 1, 'axis')).args[0] == 'axis'
        if okr:
            for alt in unwrap_gamma(call_arg(r, 0)):          # the spelling may be selected (complex / real input) before one shared mean
                x = abs_square_operand(alt)
                okr = okr and x is not None and data_derives(x, 'X')
        ok = ok and okr
    run.check(ok, 'FORM', 'get_variance_for_zero_mean_signal: mean of |X|^2 over `axis`', fn.loc(), '', 'a return path is not np.mean(|X|^2, axis=axis, keepdims=keepdims)',
              construct=f'FORM::{q}::mean-square')
    q = S + 'set_snr'
    fn = A.prog.func(q)
    g = A.graphs.get(fn)
    pw = [t for e in g.events if e.term is not None for t in walk_terms(e.term) if t.op == 'binop' and t.args[0] == 'Pow' and const_val(t.args[1]) == 10]
    if not pw:
        raise AnalysisError('set_snr: factor 10 ** (...) not found')
    uses = [t for e in g.events if e.term is not None for t in walk_terms(e.term) if t.op in ('binop', 'iop') and t.args[0] in ('Mult', 'Div')
            and any(strip_views(a) is pw[0] for a in t.args[1:])] + \
           [t for t in walk_terms(g.ret) if t.op in ('binop', 'iop') and t.args[0] in ('Mult', 'Div') and any(strip_views(a) is pw[0] for a in t.args[1:])]
    ok = bool(uses)
    for t in uses:
        other = [a for a in t.args[1:] if strip_views(a) is not pw[0]]
        ok = ok and t.args[0] == 'Mult' and len(other) == 1 and strip_views(other[0]).op == 'param' and strip_views(other[0]).args[0] == 'N'
    run.check(ok, 'FORM', 'set_snr: the NOISE is multiplied by the factor', fn.loc(), '', 'the factor is not applied as N * factor (in place or in the returned pair)',
              construct=f'FORM::{q}::apply')
    cur = [e.term for e in g.events if e.kind == 'call' and call_parts(e.term)[0] == S + 'get_snr']
    okk = bool(cur)
    for c in cur:
        ax, kd = call_arg(c, None, 'axis'), call_arg(c, None, 'keepdims')
        okk = okk and ax is not None and strip_views(ax).op == 'param' and strip_views(ax).args[0] == 'axis' and kd is not None and const_val(kd) is True \
            and strip_views(call_arg(c, 0)).op == 'param' and strip_views(call_arg(c, 0)).args[0] == 'X' and strip_views(call_arg(c, 1)).op == 'param' and strip_views(call_arg(c, 1)).args[0] == 'N'
    run.check(okk, 'FORM', 'set_snr: the current SNR is measured on (X, N) over the same axis and keeps that axis', fn.loc(), '',
              'the default current_snr is not get_snr(X, N, axis=axis, keepdims=True): the factor no longer broadcasts against the noise per leading index',
              construct=f'FORM::{q}::current-snr')


def check(run):
    A = run.A
    from ..opt import check_optional_truthiness, check_params_reach, check_forwarding, check_stale_loop_variables, check_argument_names, check_none_use
    check_none_use(run, A, ('pb_bss.evaluation.',))
    from ..opt import check_partial_buffer_reads
    check_partial_buffer_reads(run, A, ('pb_bss.evaluation.',))
    check_argument_names(run, A, ('pb_bss.evaluation.',))
    check_stale_loop_variables(run, A, ('pb_bss.evaluation.',))
    from ..opt import check_extent_loops
    check_extent_loops(run, A, ('pb_bss.evaluation.',))
    from ..opt import check_block_partitions
    check_block_partitions(run, A, ('pb_bss.evaluation.',))
    from ..opt import check_result_buffers
    check_result_buffers(run, A, ('pb_bss.evaluation.',))
    check_forwarding(run, A, ('pb_bss.evaluation.',))
    check_params_reach(run, A, ('pb_bss.evaluation.',))
    check_optional_truthiness(run, A, ('pb_bss.evaluation.',))
    run.explanation = (
        'Structural identities of the metrics decided on the source: both SXR functions compute _sxr(S, I+N), _sxr(S, I), _sxr(S, N) with the identical S and the first denominator being '
        'the sum of the other two (power decomposition for a pure ratio _sxr); own-source exclusion of the interference; complete enumeration and arg-MAX selection of the outputs; the '
        'return_dict protocol of both siblings by specialising on True / prefix string / False with the constant domain; last-axis-only reductions and projection form of si_sdr; exponent of '
        'the set_snr factor. dB values and scaling laws as numbers are not decided.')
    run.trusted = ['metric definitions in the property statement']
    check_ratios(run, A)
    check_pooling(run, A)
    check_self_exclusion(run, A)
    check_selection(run, A)
    check_return_dict(run, A)
    check_same_postprocessing(run, A)
    c20.check_mutable_defaults(run, A, ('pb_bss.evaluation.',))          # a result dict that is shared between calls is not the result of one call
    check_si_sdr(run, A)
    check_snr(run, A)
    check_power_helper(run, A)
