"""C10 - PSD estimate is the mask-weighted mean outer product (structural parts).

  R-EIN   every contraction is sum_t m[k,t] x[d,t] conj(x[e,t]): shared time index contracted, conjugate on the
          second sensor factor, source index ahead of the two sensor indices.
  R-AXIS  the mask is normalised over the time axis parameter, with a positive floor, only under `normalize`;
          the mask-free estimate divides by the number of frames.
  R-MUT   np.copy(mask) dominates every in-place effect; observation is never a target.
  R-API   every numpy attribute used exists in the installed library (boolean-mask conversion).
  R-ROLE  the source axis is rolled to the front only when source_dim < -2; condition_covariance takes the trace
          over the last two axes, divides by the last dimension and returns (x + gamma*tr/D*I) / (1 + gamma).
"""
from ..model import AnalysisError
from ..terms import T, walk_terms
from ..walk import data_derives, ret_alts, call_parts, call_arg, is_call_to, const_val, NOVAL, strip_views, unwrap_gamma, is_conj, same_value, ctx_tree
from .. import ein, api
from . import c20

Q = 'pb_bss.extraction.beamformer::get_power_spectral_density_matrix'
QC = 'pb_bss.extraction.beamformer::condition_covariance'


def derives(t, pname):
    return data_derives(t, pname)


def axis_param(t):
    """name of the *_dim parameter an axis expression stands for: the parameter itself, or the i-th result of the
    normalising generator `(d % ndim - ndim for d in (sensor_dim, source_dim, time_dim))`"""
    t = strip_views(t)
    if t.op == 'param':
        return t.args[0]
    if t.op == 'unpack':
        src = strip_views(t.args[0])
        if src.op == 'comp' and len(src.args[2]) == 1:
            it = strip_views(src.args[2][0])
            if it.op in ('tuple', 'list') and t.args[1] < len(it.args[0]):
                e = strip_views(it.args[0][t.args[1]])
                if e.op == 'param':
                    return e.args[0]
    if t.op == 'binop':
        names = {axis_param(x) for x in (t.args[1], t.args[2])} - {None}
        return names.pop() if len(names) == 1 else None
    return None


def _tail_axes(t):
    """t brings two axes named by *_dim parameters to the end of its operand: x.transpose(<others> + [a, b]) | np.transpose(x, ...) | np.moveaxis(x, [a, b], [-2, -1])
    -> (operand, (name of a, name of b)); a reordering with other targets -> (operand, None); not a reordering -> None"""
    from ..walk import canon
    n, pos, kw = call_parts(t)
    if n is None:
        return None
    c = canon(n)
    if c == 'numpy.transpose':
        ax = call_arg(t, 1, 'axes')
        if ax is None:
            return pos[0], None
        ax = strip_views(ax)
        last = None
        if ax.op == 'binop' and ax.args[0] == 'Add':
            last = strip_views(ax.args[2])
        elif ax.op in ('list', 'tuple'):
            last = ax
        if last is not None and last.op in ('list', 'tuple') and len(last.args[0]) >= 2:
            a, b = last.args[0][-2], last.args[0][-1]
            return pos[0], (axis_param(a), axis_param(b))
        return pos[0], None
    if c == 'numpy.moveaxis':
        s_, d_ = call_arg(t, 1, 'source'), call_arg(t, 2, 'destination')
        if s_ is not None and d_ is not None and strip_views(s_).op in ('list', 'tuple') and const_val(strip_views(d_)) in ((-2, -1), [-2, -1]):
            items = strip_views(s_).args[0]
            if len(items) == 2:
                return pos[0], (axis_param(items[0]), axis_param(items[1]))
        return pos[0], None
    if c in ('numpy.swapaxes', 'numpy.rollaxis'):
        return pos[0], None
    return None


PASS_THROUGH = ('numpy.copy', 'numpy.conj', 'numpy.conjugate', 'numpy.asarray', 'numpy.array', 'numpy.ascontiguousarray', 'numpy.expand_dims', 'method:astype', 'method:copy',
                'method:conj', 'method:conjugate', 'numpy.abs', 'numpy.absolute')


def layout_of(t, pname, depth=0):
    """how the caller's array `pname` reaches the contraction operand t: set of layouts, each the pair of *_dim names brought to the end, 'caller' when the array arrives in
    the caller's layout (no axis reordering on the way), '?' when the way is not recognised"""
    if depth > 40:
        return {'?'}
    t0 = t
    while isinstance(t0, T) and t0.op == 'refine':
        t0 = t0.args[0]
    if not isinstance(t0, T):
        return {'?'}
    if t0.op == 'param':
        return {'caller'} if t0.args[0] == pname else {'?'}
    if t0.op == 'gamma':
        out = set()
        for x in (t0.args[1], t0.args[2]):
            if derives(x, pname):
                out |= layout_of(x, pname, depth + 1)
        return out or {'?'}
    r = _tail_axes(t0)
    if r is not None:
        x, names = r
        inner = layout_of(x, pname, depth + 1)
        if inner != {'caller'}:
            return {'?'}                 # a second reordering: not composed here
        return {names if names is not None and None not in names else '?'}
    n = call_parts(t0)[0]
    if n in PASS_THROUGH or (n is not None and n.startswith('method:') and n.split(':')[1] in ('conj', 'copy', 'astype')):
        return layout_of(call_parts(t0)[1][0], pname, depth + 1)
    if t0.op in ('binop', 'iop'):
        side = [x for x in (t0.args[1], t0.args[2]) if derives(x, pname)]
        # mask /= sum(mask): the normaliser derives from the mask too; the array itself is the left operand of an in-place / elementwise operation
        if t0.op == 'iop' or (len(side) == 2 and t0.args[0] in ('Div', 'Mult')):
            return layout_of(t0.args[1], pname, depth + 1)
        if len(side) == 1:
            return layout_of(side[0], pname, depth + 1)
        return {'?'}
    if t0.op == 'sub':
        from ..walk import newaxis_insertions
        ins = newaxis_insertions(t0)
        if ins is not None:
            return layout_of(ins[0], pname, depth + 1)
    if t0.op == 'store':
        return layout_of(t0.args[0], pname, depth + 1)
    return {'?'}


def _layout_by_enumeration(term, pname, want):
    """(True, number of points) when for every rank 2..4 and every admissible assignment of the three axis parameters the operand is the parameter with (want[0], want[1])
    at its last two axes; (False, point, what arrives) for the first point where it is not; None when some point cannot be folded."""
    from ..inteval import permutation_of
    import itertools
    n_pts = 0
    for nd in (2, 3, 4):
        reps = [list(range(-nd, nd))] * 3
        for sd, kd, td in itertools.product(*reps):
            if len({sd % nd, td % nd}) < 2:
                continue
            if pname == 'mask' and len({sd % nd, kd % nd, td % nd}) < 3 and len({kd % nd, td % nd}) < 2:
                continue
            if pname == 'mask' and kd % nd == td % nd:
                continue
            env = {'sensor_dim': sd, 'source_dim': kd, 'time_dim': td, ('ndim', 'observation'): nd, ('ndim', 'mask'): nd}
            p = permutation_of(term, pname, env)
            if p is None:
                return None
            n_pts += 1
            w0, w1 = env[want[0]] % nd, env[want[1]] % nd
            if (p[-2], p[-1]) != (w0, w1):
                return False, f'rank {nd}, sensor_dim={sd}, source_dim={kd}, time_dim={td}', (p[-2] - nd, p[-1] - nd)
    return (True, n_pts) if n_pts else None


def check_layout(run, A, fn, sites):
    """sensor_dim / source_dim / time_dim are promises to the caller: the contraction letters only mean (sensor, frame) and (source, frame) after the observation and a mask
    with a source axis have been brought to (..., sensor_dim, time_dim) and (..., source_dim, time_dim)."""
    n = 0
    for s in sites:
        st = ein.structure(s)
        info = ein.operand_info(s)
        for i, (b, cj, raw) in enumerate(info):
            letters = st['ins'][i]
            if derives(raw, 'observation') and not (derives(raw, 'mask') and not any(x.op == 'param' and x.args[0] == 'observation' for x in walk_terms(raw))):
                want, pname = ('sensor_dim', 'time_dim'), 'observation'
                obs_side = raw
                r0 = strip_views(raw)
                if r0.op == 'binop' and r0.args[0] == 'Mult':
                    side = [x for x in (r0.args[1], r0.args[2]) if any(y.op == 'param' and y.args[0] == 'observation' for y in walk_terms(x)) and
                            not any(y.op == 'param' and y.args[0] == 'mask' for y in walk_terms(x))]
                    if len(side) == 1:
                        obs_side = side[0]
                got = layout_of(obs_side, pname)
            elif derives(raw, 'mask') and len(letters) >= 2 and letters[-2] in st['out']:
                want, pname = ('source_dim', 'time_dim'), 'mask'
                got = layout_of(raw, pname)
            else:
                continue
            n += 1
            enumerated = None
            if '?' in got or (len(got) > 1 and 'caller' in got):
                # not one of the recognised spellings, or a reordering that is skipped on some path (`if (sensor_dim, time_dim) != (-2, -1): transpose`): whether the skipped
                # path is the one where the reordering is the identity is decided by folding, not by the spelling
                # not one of the recognised spellings: fold the axis arithmetic for every rank 2..4 and every admissible (sensor_dim, source_dim, time_dim) (pbv/inteval.py)
                enumerated = _layout_by_enumeration(obs_side if pname == 'observation' else raw, pname, want)
            if enumerated is not None and enumerated[0] is True:
                run.ok('R-AXIS', f'PSD {st["sub"]!r}: {pname} operand is in layout (..., {want[0]}, {want[1]})', s.loc, f'axis arithmetic folded on {enumerated[1]} points (rank 2..4)')
            elif enumerated is not None and enumerated[0] is False:
                run.violation('R-AXIS', f'PSD {st["sub"]!r}: {pname} operand is in layout (..., {want[0]}, {want[1]})', s.loc,
                              f'operand {i} ({letters!r}): for {enumerated[1]} the axes that arrive at the last two positions are {enumerated[2]} of `{pname}`, not '
                              f'({want[0]}, {want[1]}): the letters pair the wrong axes', construct=f'R-AXIS::{Q}::layout::{pname}')
            elif got == {want}:
                run.ok('R-AXIS', f'PSD {st["sub"]!r}: {pname} operand is in layout (..., {want[0]}, {want[1]})', s.loc, '')
            elif '?' in got or (len(got) > 1 and 'caller' in got):
                run.unresolved('R-AXIS', f'PSD {st["sub"]!r}: {pname} operand is in layout (..., {want[0]}, {want[1]})', s.loc, f'the way from `{pname}` to operand {i} is not recognised'
                               + (' (the reordering is skipped on some path, and the condition could not be folded)' if 'caller' in got else ''))
            else:
                desc = ', '.join('the caller\'s layout (no reordering)' if x == 'caller' else f'(..., {x[0]}, {x[1]})' for x in sorted(got, key=str))
                run.violation('R-AXIS', f'PSD {st["sub"]!r}: {pname} operand is in layout (..., {want[0]}, {want[1]})', s.loc,
                              f'operand {i} ({letters!r}) arrives in {desc}: for any non-default {want[0]} / {want[1]} the letters pair the wrong axes', construct=f'R-AXIS::{Q}::layout::{pname}')
    run.floor('PSD contraction operands with a decided axis layout', n, 7)


def check(run):
    A = run.A
    run.explanation = (
        'The three contractions of get_power_spectral_density_matrix are checked on their contraction structure (time index shared and summed, conjugate on the second sensor '
        'factor, source index first); the mask normalisation (axis from time_dim, positive floor, only under `normalize`), the frame-count normaliser of the mask-free branch, '
        'the defensive copy (may-alias / in-place effect analysis of this function), existence of every numpy attribute used, the source-axis roll guard and the form of '
        'condition_covariance. Positive semidefiniteness and numerical layout equivalence are not decided.')
    run.trusted = ['definition sum_t m[t] x[t] x[t]^H / sum_t m[t]']
    fn = A.prog.func(Q)
    g = A.graphs.get(fn)
    sites = ein.find_sites(A, Q)
    run.floor('PSD contractions', len([s for s in sites if s.parsed]), 3)
    for s in sites:
        st = ein.structure(s)
        info = ein.operand_info(s)
        ins, out = st['ins'], st['out']
        # observation operands: the conjugated one and its plain partner
        ic = [i for i, (b, cj, raw) in enumerate(info) if cj and derives(raw, 'observation')]
        ip = [i for i, (b, cj, raw) in enumerate(info) if (not cj) and derives(raw, 'observation')]
        if len(ic) != 1 or not ip:
            run.violation('R-EIN', f'PSD {st["sub"]!r}: one plain and one conjugated observation factor', s.loc,
                          f'expected x and conj(x); found {len(ip)} plain and {len(ic)} conjugated observation operands', construct=f'R-EIN::{Q}::conj-count')
            continue
        c, p = ic[0], ip[-1]
        t_letter = ins[c][-1]
        ok_t = ins[p][-1] == t_letter and t_letter not in out and all(t_letter in ins[i] for i in range(len(ins)))
        run.check(ok_t, 'R-EIN', f'PSD {st["sub"]!r}: time index shared by all factors and summed', s.loc, '',
                  f'{st["sub"]!r}: the frame index must be the last index of every operand and be summed over', construct=f'R-EIN::{Q}::time-index')
        dp, dc = ins[p][-2], ins[c][-2]
        ok_o = len(out) >= 2 and out[-2:] == dp + dc and dp != dc
        run.check(ok_o, 'R-EIN', f'PSD {st["sub"]!r}: result[d, e] = x[d] conj(x[e])', s.loc, '',
                  f'{st["sub"]!r}: output sensor indices {out[-2:]!r} are not (plain, conjugated) = ({dp!r}, {dc!r}): transposed / conjugated PSD', construct=f'R-EIN::{Q}::conj-second')
        others = [i for i in range(len(ins)) if i not in (c, p)]
        for i in others:
            # explicit mask operand: its source index comes first in the output, ahead of the sensor pair
            k = ins[i][-2] if len(ins[i]) >= 2 else None
            if k is None and len(ins[i]) == 1 and ins[i][0] == t_letter and derives(info[i][2], 'mask') and len(out) == 2:
                # a mask WITHOUT a source axis (one weight per frame) as its own operand '...t': nothing to place in the output
                run.ok('R-EIN', f'PSD {st["sub"]!r}: mask without a source axis weights the frames', s.loc, '')
                continue
            okk = k is not None and k in out and out.index(k) == len(out) - 3 and derives(info[i][2], 'mask')
            run.check(okk, 'R-EIN', f'PSD {st["sub"]!r}: source index ahead of the sensor pair', s.loc, '',
                      f'{st["sub"]!r}: the mask operand must contribute the source index directly in front of the two sensor indices', construct=f'R-EIN::{Q}::source-index')
        if not others and len(ins) == 2:
            # mask multiplied into the plain factor, or no mask at all
            raw = info[p][2]
            rs = strip_views(raw)
            if rs.op == 'binop' and rs.args[0] == 'Mult':
                okm = derives(rs, 'mask')
                run.check(okm, 'R-EIN', 'PSD: mask multiplies the plain observation factor', s.loc, '', 'the weighted factor is not mask * observation', construct=f'R-EIN::{Q}::mask-factor')
    check_layout(run, A, fn, [s_ for s_ in sites if s_.parsed])

    # mask normalisation
    def divisions(pred):
        """all divisions (in place or not) of the function whose numerator satisfies pred: (term, node)"""
        out, seen = [], set()
        for r in [g.ret] + [e.term for e in g.events if e.term is not None]:
            for t in walk_terms(r, seen):
                if t.op in ('binop', 'iop') and t.args[0] == 'Div' and pred(t.args[1]):
                    out.append(t)
        return out

    def guarded_by(t, pname):
        """is the value t computed only under `if <pname>:` (statement guard of an in-place update, or the then-branch of a gamma)?"""
        for e in g.events:
            if e.term is t:
                return any(strip_views(c).op == 'param' and strip_views(c).args[0] == pname and pol for c, pol in e.guards)
        seen = set()
        for r in [g.ret] + [e.term for e in g.events if e.term is not None]:
            for x in walk_terms(r, seen):
                if x.op == 'gamma' and strip_views(x.args[0]).op == 'param' and strip_views(x.args[0]).args[0] == pname and x.args[1] is t and x.args[2] is not t:
                    return True
        return False

    # every division of the mask by a quantity computed from the mask is a normalisation (whatever the spelling of the denominator: sum, count_nonzero, mean * T ...)
    norm_terms = [t for t in divisions(lambda n: derives(n, 'mask') and not derives(n, 'observation')) if derives(t.args[2], 'mask')]
    if not norm_terms:
        raise AnalysisError('get_power_spectral_density_matrix: mask normalisation not found')

    class _E:
        pass
    norm_ev = []
    for t in norm_terms:
        e = _E()
        e.term, e.node = t, t.node
        norm_ev.append(e)
    for e in norm_ev:
        den = e.term.args[2]
        ok = False
        why = 'denominator is not np.maximum(np.sum(mask, axis=time_dim, keepdims=True), positive constant)'
        if is_call_to(den, 'numpy.maximum'):
            a, b = call_arg(den, 0), call_arg(den, 1)
            sm = a if is_call_to(a, 'numpy.sum') else b if is_call_to(b, 'numpy.sum') else None
            fl = b if sm is a else a
            if sm is not None:
                ax = call_arg(sm, 1, 'axis')
                kd = const_val(call_arg(sm, None, 'keepdims'))
                flv = const_val(fl)
                ok = ax is not None and axis_param(ax) == 'time_dim' and kd is True and flv is not NOVAL and isinstance(flv, (int, float)) and flv > 0 \
                    and call_arg(sm, 0) is e.term.args[1]
        run.check(ok, 'R-AXIS', 'PSD: mask normalised by its floored sum over the time axis', fn.loc(e.node), '', why, construct=f'R-AXIS::{Q}::mask-normalisation')
        if ok:
            # `time_dim` is an index into the CALLER's layout: the mask that is summed over it must not have been reordered yet
            lay = layout_of(call_arg(sm, 0), 'mask')
            moved = sorted(x for x in lay if isinstance(x, tuple))
            if moved:
                run.violation('R-AXIS', 'PSD: the mask is normalised over time_dim in the caller\'s layout', fn.loc(e.node),
                              f'the mask reaches the normalisation already reordered to (..., {moved[0][0]}, {moved[0][1]}) on some path, and is summed over `time_dim`, which counts in the '
                              f'caller\'s layout: for any non-default time_dim another axis is normalised', construct=f'R-AXIS::{Q}::mask-normalisation-layout')
            elif lay == {'caller'}:
                run.ok('R-AXIS', 'PSD: the mask is normalised over time_dim in the caller\'s layout', fn.loc(e.node), '')
            else:
                run.unresolved('R-AXIS', 'PSD: the mask is normalised over time_dim in the caller\'s layout', fn.loc(e.node), 'the way from `mask` to the normalised array is not recognised')
        guard_ok = guarded_by(e.term, 'normalize')
        run.check(guard_ok, 'R-AXIS', 'PSD: mask normalisation only under `normalize`', fn.loc(e.node), '', 'the mask is normalised regardless of the normalize option',
                  construct=f'R-AXIS::{Q}::normalize-guard')
    # mask-free branch: divide by the number of frames
    psd_div = [t for t in divisions(lambda n: derives(n, 'observation') and not derives(n, 'mask'))]
    okf = False
    for t_ in psd_div:
        d = strip_views(t_.args[2])
        if d.op == 'sub' and const_val(d.args[1]) == -1 and d.args[0].op == 'attr' and d.args[0].args[1] == 'shape' and derives(d.args[0].args[0], 'observation'):
            okf = True
    run.check(okf, 'R-AXIS', 'PSD: mask-free estimate divides by the number of frames', fn.loc(), '', 'psd /= observation.shape[-1] (frames of the transposed observation) not found',
              construct=f'R-AXIS::{Q}::frame-count')
    # source axis roll
    # (moves of the PSD of the source-mask branch: the operand is computed from the mask; moves that bring the observation / mask into the working layout are judged by *layout*)
    rolls = [e for e in g.events if e.kind == 'call' and is_call_to(e.term, 'numpy.rollaxis', 'numpy.moveaxis') and call_arg(e.term, 0) is not None
             and derives(call_arg(e.term, 0), 'mask') and derives(call_arg(e.term, 0), 'observation')]
    swaps = [e for e in g.events if e.kind == 'call' and is_call_to(e.term, 'numpy.swapaxes', 'method:swapaxes') and any(axis_param(c.args[1]) == 'source_dim' for c, p in e.guards if c.op == 'cmp')]
    run.check(not swaps, 'R-ROLE', 'PSD: the source axis is MOVED to the requested position, the other leading axes keep their order', fn.loc(), '',
              'the source axis is exchanged (swapaxes) with a leading axis: for more than one leading axis the leading axes are permuted', construct=f'R-ROLE::{Q}::source-axis-swapped')
    okr = bool(rolls)
    undecided_guard = None
    for e in rolls:
        ok1 = False
        for c, pol in e.guards:
            if c.op == 'cmp' and c.args[0] == 'Lt' and axis_param(c.args[1]) == 'source_dim' and const_val(c.args[2]) == -2 and pol:
                ok1 = True
        if not ok1:
            # the same condition in another spelling (source_dim % ndim < ndim - 2): decided by evaluating the guards that mention source_dim for every rank 3..5 and
            # every admissible value of the parameter; a guard that cannot be folded leaves the rule undecided
            from ..inteval import int_eval, UNKNOWN
            rel = [(c, pol) for c, pol in e.guards if any(x.op == 'param' and x.args[0] == 'source_dim' for x in walk_terms(c, into_mu=False))]
            verdict = True if rel else False
            for n_ in (3, 4, 5):
                for v_ in range(-n_, n_):
                    env_ = {'source_dim': v_, 'sensor_dim': -2, 'time_dim': -1, ('ndim', 'observation'): n_, ('ndim', 'mask'): n_}
                    vals = [int_eval(c, env_) for c, _ in rel]
                    if any(x is UNKNOWN or not isinstance(x, (bool, int)) for x in vals):
                        verdict = None
                        break
                    taken = all(bool(x) == pol for x, (_, pol) in zip(vals, rel))
                    if taken != ((v_ % n_ - n_) < -2):
                        verdict = False
                        break
                if verdict is not True:
                    break
            if verdict is None:
                undecided_guard = e
            ok1 = verdict is True
        okr = okr and ok1 and const_val(call_arg(e.term, 1)) == -3
    if undecided_guard is not None and not okr:
        run.unresolved('R-ROLE', 'PSD: source axis moved to the front only when source_dim < -2', fn.loc(undecided_guard.node), 'the condition that guards the move of the source axis cannot be folded')
        okr = None
    if okr is not None:
        run.check(okr, 'R-ROLE', 'PSD: source axis moved to the front only when source_dim < -2', fn.loc(), '', 'rollaxis of the source axis (-3) is not guarded by `source_dim < -2`',
                  construct=f'R-ROLE::{Q}::rollaxis-guard')
    # defensive copy / no caller mutation: R-MUT restricted to this function
    ev = A.ev
    ctx = ev.entry(fn)
    bad = []
    n_eff = 0
    for c in ctx_tree(ctx):
        for (e, tv, _v) in c.effects:
            kind, node = c20.effect_desc(e)
            if kind.startswith('container'):
                continue
            n_eff += 1
            certain, maybe = c20.effect_target_roots(tv)
            for r in certain:
                if r[0] == 'param' and r[1] == fn.qual and c20.is_array_like(tv):
                    bad.append((r[2], node, c))
    run.count('in-place effects in the PSD estimator', n_eff)
    run.check(not bad, 'R-MUT', 'PSD: no in-place effect reaches mask or observation', fn.loc(), f'{n_eff} in-place effects, all on fresh memory',
              f'in-place effect on caller memory: {[(b[0], fn.loc(b[1])) for b in bad]}', construct=f'R-MUT::{Q}::caller-arrays')
    # library attributes / keywords exist
    n_api = api.check_attrs(run, A, [Q, QC]) + api.check_keywords(run, A, [Q, QC])
    run.count('library references resolved', n_api)
    run.ok('R-API', 'PSD / condition_covariance: library attributes resolved', fn.loc(), f'{n_api} references')
    # condition_covariance
    fc = A.prog.func(QC)
    gc = A.graphs.get(fc)
    tr = [e.term for e in gc.events if e.kind == 'call' and is_call_to(e.term, 'numpy.trace')]
    okt = bool(tr) and {const_val(call_arg(tr[0], None, 'axis1')), const_val(call_arg(tr[0], None, 'axis2'))} == {-1, -2}
    run.check(okt, 'R-AXIS', 'condition_covariance: trace over the last two axes', fc.loc(), '', 'np.trace is not taken over axis1/axis2 = -2/-1', construct=f'R-AXIS::{QC}::trace-axes')
    # the whole expression in rational normal form over {x, gamma, tr(x), D, I}: (x + gamma * tr / D * I) / (1 + gamma), any arrangement
    from ..ratfun import rational, NotRational, A as _A, C as _C
    from ..walk import shape_dim

    def atoms(t):
        t0 = strip_views(t)
        if t0.op == 'param':
            return {'x': 'x', 'gamma': 'gamma'}.get(t0.args[0])
        if tr and t0 is tr[0]:
            return 'tr'
        if tr and t0.op == 'attr' and t0.args[1] == 'real' and strip_views(t0.args[0]) is tr[0]:
            return 'tr'          # the trace of a Hermitian matrix is real
        if tr and is_call_to(t0, 'numpy.maximum', 'numpy.clip', 'numpy.minimum', 'numpy.abs', 'numpy.absolute', 'numpy.where', 'numpy.nan_to_num') and \
                any(x is tr[0] for x in walk_terms(t0, into_mu=False)):
            # a floored / clipped trace: an absolute bound on a quantity that scales with x - no longer the documented loading gamma tr(x) / D
            return f'{call_parts(t0)[0].split(".")[-1]}(tr, ...)'
        sd = shape_dim(t0)
        if sd is not None and sd[0].op == 'param' and sd[0].args[0] == 'x':
            return 'D' if sd[1] in (-1, -2) else f'x.shape[{sd[1]}]'
        # the identity, broadcast against the leading axes: np.eye(D) / np.eye(D).reshape(1, ..., 1, D, D) / np.identity(D)
        e0 = t0
        if is_call_to(e0, 'numpy.reshape') or (e0.op == 'call' and e0.args[0].op == 'attr' and e0.args[0].args[1] == 'reshape'):
            e0 = strip_views(call_arg(e0, 0))
        if is_call_to(e0, 'numpy.eye', 'numpy.identity'):
            sd = shape_dim(call_arg(e0, 0))
            return 'I' if sd is not None and sd[0].op == 'param' and sd[0].args[0] == 'x' and sd[1] in (-1, -2) else 'I?'
        return None
    try:
        got = rational(gc.ret, atoms)
    except NotRational as e:
        run.unresolved('R-ROLE', 'condition_covariance: form', fc.loc(), f'not a recognised rational expression ({e})')
    else:
        want = (_A('x') + _A('gamma') * _A('tr') / _A('D') * _A('I')) / (_C(1) + _A('gamma'))
        run.check(got.same(want), 'R-ROLE', 'condition_covariance: (x + gamma * tr(x) / D * I) / (1 + gamma)', fc.loc(), '',
                  f'the conditioned matrix is not (x + gamma * trace(x) / D * I) / (1 + gamma) (found {got})', construct=f'R-ROLE::{QC}::form')
