"""C16 - blind alignment restores a frequency-consistent class order: only the net-reordering clause's structure.

  PAIRED  DHTV: every permutation applied to features[:, f, :] is applied with the same index vector and the same f to
          mapping[:, f] under the same guard; mapping starts as identity and is only self-gathered; DHTV works on a copy.
  CHAIN   greedy aligner: mapping[:, f] = mapping[mapping[:, f-1], f] composes with the already composed predecessor
          in increasing f; first column is the identity.
  PLAN    necessary condition of plan coverage: on every outcome of the branch conditions of `alignment_plan` some segment is stretched
          to each band edge (0 and F).
Recovery of a consistent order under the 70 % / two-thirds conditions, identity on consistent masks and full plan coverage
(an enumeration over configurations) are not decidable by a static rule (not claimed).
"""
from ..model import AnalysisError
from ..terms import T, walk_terms
from ..walk import data_derives, ret_alts, call_parts, call_arg, is_call_to, const_val, strip_views, unwrap_gamma
from . import c14

P = 'pb_bss.permutation_alignment::'


def _atoms(c, acc):
    if c.op == 'unop' and c.args[0] == 'Not':
        _atoms(c.args[1], acc)
    elif c.op == 'bool':
        for x in c.args[1]:
            _atoms(x, acc)
    else:
        acc.setdefault(id(c), c)


def _holds(c, env):
    if c.op == 'unop' and c.args[0] == 'Not':
        return not _holds(c.args[1], env)
    if c.op == 'bool':
        vals = [_holds(x, env) for x in c.args[1]]
        return all(vals) if c.args[0] == 'And' else any(vals)
    return env[id(c)]


def check_plan_edges(run, A):
    """necessary condition of plan coverage, decided over the (finitely many) outcomes of the branch conditions of `alignment_plan`:
    on every path some segment end is set to F = stft_size // 2 + 1 and some segment start is set to 0 (the outermost segments are
    stretched to the band edges whichever of the two segment lists is empty)"""
    import itertools
    q = P + 'DHTVPermutationAlignment.alignment_plan'
    fn = A.prog.func(q)
    g = A.graphs.get(fn)
    stores = [e for e in g.events if e.kind == 'store']

    def is_F(v):
        v = strip_views(v)
        return v.op == 'binop' and v.args[0] == 'Add' and const_val(v.args[2]) == 1 and strip_views(v.args[1]).op == 'binop' and strip_views(v.args[1]).args[0] == 'FloorDiv'
    def has(v, pred):
        v = strip_views(v)
        return pred(v) or (v.op in ('list', 'tuple') and any(pred(strip_views(x)) for x in v.args[0]))
    groups = {'upper band edge F': [e for e in stores if has(e.term.args[2], is_F)],
              'lower band edge 0': [e for e in stores if has(e.term.args[2], lambda v: const_val(v) == 0)]}
    rets = [e for e in g.events if e.kind == 'return']
    if not rets:
        raise AnalysisError('alignment_plan: return not found')
    # conditions under which the plan is returned at all (e.g. "the configuration was not rejected by the raise above") are no case distinctions
    reach = set.intersection(*[{(id(c), pol) for c, pol in e.guards} for e in rets])
    if not all(groups.values()):
        raise AnalysisError('alignment_plan: stores that stretch the outermost segments to 0 / F not found')
    for what, evs in groups.items():
        evs = [type('G', (), dict(guards=[(c, pol) for c, pol in e.guards if (id(c), pol) not in reach], node=e.node)) for e in evs]
        atoms = {}
        for e in evs:
            for c, _ in e.guards:
                _atoms(c, atoms)
        keys = list(atoms)
        uncovered = None
        if len(keys) <= 6:
            for vals in itertools.product((True, False), repeat=len(keys)):
                env = dict(zip(keys, vals))
                if not any(all(_holds(c, env) == pol for c, pol in e.guards) for e in evs):
                    uncovered = env
                    break
        run.check(uncovered is None and len(keys) <= 6, 'PLAN', f'DHTV.alignment_plan: the {what} is reached on every path', fn.loc(evs[0].node), f'{len(evs)} stores, {len(keys)} branch conditions',
                  f'there is an outcome of the branch conditions under which no segment is stretched to the {what}: the plan leaves the bins between its outermost segment and '
                  f'the band edge unvisited', construct=f'PLAN::{q}::{what.split()[0]}-edge')


def check_plan_segments(run, A):
    """PLAN: every planned segment [iterations, start, end] is a band of the configured width: end - start == segment_width as polynomials over
    {segment_width, segment_start, segment_shift, F, running index} (before the two band-edge fixes).  A segment with end < start is empty: its bins are
    never aligned and its centroid is the mean of nothing.  Compared in rational normal form, so `start + width`, `width + start`, hoisted locals ... are one form."""
    from ..ratfun import rational, NotRational, A as _A
    q = P + 'DHTVPermutationAlignment.alignment_plan'
    fn = A.prog.func(q)
    g = A.graphs.get(fn)
    segs = []
    seen = set()
    for r in [g.ret] + [e.term for e in g.events if e.term is not None]:
        for t in walk_terms(r):
            if t.id in seen:
                continue
            seen.add(t.id)
            if t.op == 'list' and len(t.args[0]) == 3 and not any(x.op == 'star' for x in t.args[0]):
                segs.append(t)

    def atoms(t):
        t0 = strip_views(t)
        if t0.op == 'attr' and strip_views(t0.args[0]).op == 'param' and strip_views(t0.args[0]).args[0] == 'self':
            return t0.args[1]
        if t0.op in ('elem', 'unpack', 'mu'):
            return f'i{t0.id}'
        return None
    n = 0
    for sg in segs:
        try:
            st, en = rational(sg.args[0][1], atoms), rational(sg.args[0][2], atoms)
        except NotRational:
            continue
        n += 1
        run.check((en - st).same(_A('segment_width')), 'PLAN', 'alignment_plan: a planned segment spans segment_width bins', fn.loc(sg.node), '',
                  f'end - start of a planned segment is {en - st}, not segment_width: an empty or mis-sized band (its bins are skipped or its centroid mixes other bands)',
                  construct=f'PLAN::{q}::segment-width')
    run.floor('C16 planned segment literals', n, 3)


def check(run):
    A = run.A
    check_plan_edges(run, A)
    check_plan_segments(run, A)
    run.explanation = (
        'Only the net-reordering clause is decided, structurally: in DHTV the per-bin permutation is applied with the same index vector, bin and guard to the working features and to '
        'the running mapping, which starts as the identity and is only self-gathered by assignments of a score matrix, on a copy of the input; in the greedy aligner the adjacent-bin '
        'assignments are composed with the already composed predecessor column in increasing frequency, starting from an identity column. Recovery under the majority / overlap '
        'conditions, identity on consistent masks and alignment-plan coverage are NOT decided by this technique.')
    run.trusted = ['assignments returned by _mapping_from_score_matrix are permutations (C14)']
    c14.check_calculate_mappings(run, A)
    from ..opt import check_block_partitions
    check_block_partitions(run, A, ('pb_bss.permutation_alignment',))
    # DHTV works on a copy of the mask (features), the centroid is computed from the current features of the segment
    q = P + 'DHTVPermutationAlignment.calculate_mapping'
    fn = A.prog.func(q)
    g = A.graphs.get(fn)
    c14.check_dhtv_copy(run, A)
    means = [e.term for e in g.events if e.kind == 'call' and is_call_to(e.term, 'numpy.mean')]
    if not means and any('helper not evaluated in place' in k or 'accumulated over blocks' in k for k, _ in (getattr(g, 'not_followed', None) or [])):
        # the centroid is computed by a method a later change introduced (not evaluated in place), or accumulated block by block: not read here
        run.unresolved('PAIRED', 'DHTV: centroid = mean over the segment bins of the CURRENT features', fn.loc(),
                       'the centroid is computed by a helper that is not evaluated in place / accumulated over blocks of the segment')
        means = None
    # (the operand is features[:, start:end, :], indexed with three items: axis 1 and axis -2 are the same axis)
    skip_centroid = means is None
    means = means or []
    okc = bool(means) and const_val(call_arg(means[0], None, 'axis')) in (1, -2)
    if okc:
        src = strip_views(call_arg(means[0], 0))
        okc = src.op == 'sub' and src.args[1].op == 'tuple' and len(src.args[1].args[0]) == 3 and strip_views(src.args[1].args[0][1]).op == 'slice' \
            and not any(x.op == 'const' and x.args[0] in (None, Ellipsis) for x in src.args[1].args[0])
        if okc:
            base = strip_views(src.args[0])
            okc = base.op == 'mu' or base.op == 'store' or any(x.op == 'mu' for x in unwrap_gamma(base))
    if not skip_centroid:
        run.check(okc, 'PAIRED', 'DHTV: centroid = mean over the segment bins of the CURRENT features', fn.loc(), '', 'the time centroid is not np.mean(features[:, start:end, :], axis=1) of the running features',
                  construct=f'PAIRED::{q}::centroid')
    # every segment of the plan gets the number of passes the plan gives it: the loop over the passes runs `iterations` times (range(iterations); any other bounds are folded)
    from ..inteval import int_eval, UNKNOWN
    from ..terms import T as _T
    n_pass = 0
    for L_ in [l for l in g.loops if l.kind == 'for']:
        it_ = strip_views(L_.iter) if isinstance(L_.iter, _T) else None
        if it_ is None or not is_call_to(it_, 'builtin.range'):
            continue
        planned = [y for a_ in call_parts(it_)[1] for y in walk_terms(a_) if y.op == 'unpack' and y.args[1] == 0 and y.args[2] == 3]
        if not planned:
            continue
        n_pass += 1
        verdict = True
        for n_ in (1, 2, 5):
            # the planned count is the only unknown of the bounds: substitute it
            env_ = {('term', p_.id): n_ for p_ in planned}
            vals = [int_eval(strip_views(a_), env_) for a_ in call_parts(it_)[1]]
            if any(v is UNKNOWN or not isinstance(v, int) for v in vals):
                verdict = None
                break
            if len(range(*vals)) != n_:
                verdict = (n_, len(range(*vals)))
                break
        if verdict is None:
            run.unresolved('PLAN', 'DHTV: every planned segment gets its number of passes', fn.loc(L_.node), 'bounds of the loop over the passes are not folded')
        else:
            run.check(verdict is True, 'PLAN', 'DHTV: every planned segment gets its number of passes', fn.loc(L_.node), '',
                      f'a segment planned with {verdict[0]} pass(es) gets {verdict[1]}: with one planned pass the segment is never aligned although the plan covers its bins'
                      if verdict is not True else '', construct=f'PLAN::{q}::passes')
    run.floor('DHTV loops over the planned passes', n_pass, 1)
    # ... as a fraction: not truncated into a buffer of the mask's (possibly integer) dtype
    from ..opt import check_result_buffers
    check_result_buffers(run, A, ('pb_bss.permutation_alignment',))
    # the bins that are re-assigned are exactly the bins the centroid was averaged over: `for f in range(start, end)` with the bounds of features[:, start:end, :]
    if okc:
        from ..walk import loop_role, index_extent
        sl = strip_views(src.args[1].args[0][1])
        lo, hi = strip_views(sl.args[0]), strip_views(sl.args[1])
        al0 = [e.term for e in g.events if e.kind == 'call' and call_parts(e.term)[0] == 'method:_align_segment']
        okb, why = False, 'the bin index of _align_segment is not a running index'
        if al0:
            a1 = strip_views(call_arg(al0[0], 1))
            items = a1.args[1].args[0] if a1.op == 'sub' and a1.args[1].op == 'tuple' else ()
            fi = strip_views(items[1]) if len(items) == 3 else None
            r = loop_role(fi) if fi is not None else None
            if r is not None and r[0] == 'index':
                it = strip_views(r[1].iter) if getattr(r[1], 'iter', None) is not None else None
                if it is not None and is_call_to(it, 'builtin.range') and len(call_parts(it)[1]) == 2:
                    b0, b1 = strip_views(call_arg(it, 0)), strip_views(call_arg(it, 1))
                    okb = b0 is lo and b1 is hi
                    why = 'the loop over the bins of a segment does not run over range(start, end) of the segment the centroid was computed on'
        run.check(okb, 'PAIRED', 'DHTV: every bin of the segment (and only those) is aligned against its centroid', fn.loc(), '', why, construct=f'PAIRED::{q}::segment-bins')
    # 'cos' compares activity patterns over TIME: every normalisation of features / centroids is along the last axis
    nn = 0
    for qq in (q, P + '_ScoreMatrix.cos'):
        gq = A.graphs.get(A.prog.func(qq))
        for e in gq.events:
            if e.kind == 'call' and call_parts(e.term)[0] == P + '_parameterized_vector_norm':
                nn += 1
                ax = call_arg(e.term, 1, 'axis')
                run.check(ax is None or const_val(ax) == -1, 'R-AXIS', f'{qq.split("::")[1]}: cosine features are normalised over time', A.prog.func(qq).loc(e.term.node), '',
                          'the activity pattern is normalised along another axis than time (-1): the cosine score compares something else than the temporal activity of the classes',
                          construct=f'R-AXIS::{qq}::time-normalisation')
    run.floor('C16 cosine normalisations', nn, 4)
    # under 'cos' BOTH sides of the per-bin score are unit vectors over time: the bin's features and the centroid they are compared with.  An un-normalised centroid weights
    # every class by the length of its centroid, the assignment is then no longer the one of the cosine score
    from ..walk import reaches_param_avoiding, selected_options
    al_ = [e.term for e in g.events if e.kind == 'call' and call_parts(e.term)[0] == 'method:_align_segment']
    if not al_:
        raise AnalysisError('DHTV: the call of _align_segment is not found')
    is_norm = lambda x: call_parts(x)[0] == P + '_parameterized_vector_norm'

    def cos_selected(c):
        sel_ = selected_options({id(c): (c, True)}, 'similarity_metric')
        return True if any('cos' in o for o in sel_) else None
    for what, arg, target in (('features of the bin', call_arg(al_[0], 1), None), ('centroid', call_arg(al_[0], 2), lambda x: is_call_to(x, 'numpy.mean'))):
        bare = reaches_param_avoiding(arg, 'mask' if target is None else None, is_norm, target=target, assume=cos_selected)
        run.check(not bare, 'R-AXIS', f"DHTV: under 'cos' the {what} reach(es) the score as unit vector(s) over time", fn.loc(arg.node), '',
                  f"with similarity_metric == 'cos' the {what} reach(es) _align_segment without _parameterized_vector_norm: the inner product is no cosine, classes are weighted by their length",
                  construct=f'R-AXIS::{q}::cos-unit::{what.split()[0]}')
    # the per-bin assignment compares the bin's current features with the centroid
    al = [e.term for e in g.events if e.kind == 'call' and call_parts(e.term)[0] == 'method:_align_segment']
    oka = bool(al)
    if oka:
        a1 = strip_views(call_arg(al[0], 1))
        oka = a1.op == 'sub' and a1.args[1].op == 'tuple' and len(a1.args[1].args[0]) == 3
    run.check(oka, 'PAIRED', 'DHTV: each bin is aligned against the centroid', fn.loc(), '', '_align_segment is not called with (features[:, f, :], centroid)', construct=f'PAIRED::{q}::align-call')
    qa = P + 'DHTVPermutationAlignment._align_segment'
    ga = A.graphs.get(A.prog.func(qa))
    sc = [e.term for e in ga.events if e.kind == 'call' and e.term.args[0].op == 'attr' and e.term.args[0].args[1] == 'get_score_matrix']
    oks = bool(sc) and strip_views(call_arg(sc[0], 1)).op == 'param' and strip_views(call_arg(sc[0], 1)).args[0] == 'mask' \
        and strip_views(call_arg(sc[0], 2)).op == 'param' and strip_views(call_arg(sc[0], 2)).args[0] == 'prototype'
    run.check(oks, 'PAIRED', 'DHTV._align_segment: score[prototype class, bin class]', A.prog.func(qa).loc(), '', 'score matrix is not get_score_matrix(mask, prototype): rows must be the prototype classes',
              construct=f'PAIRED::{qa}::orientation')
