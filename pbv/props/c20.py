"""C20 - calls are pure: inputs untouched, results reproducible and history-free.

Decided (structural necessary conditions):
  R-MUT    no in-place effect (augmented assignment, subscript store, out=, ndarray in-place
           method, numpy mutator) anywhere in the call tree of a public callable may reach
           memory that aliases one of the callable's parameters or a stored model field.
  R-STATE  no module-global / class-attribute writes; trainer attributes written outside
           __init__ only under `self.<attr> is None`, with an assert comparing it otherwise;
           cached_property bodies read only such attributes; nondeterminism only through
           np.random and, in the mixture trainers, only when `initialization is None`.
  R-LOOP   a fit continued from a model enters the EM loop with the E-step and every M-step
           argument is definitely assigned for each kind of initialisation.
"""
import ast

from ..model import Func, Cls, Lib, AnalysisError
from ..terms import T, walk_terms
from ..absint import AV, TOP, is_bot, cav
from ..walk import (SCOPE_MODULES_C20, ctx_tree, public_callables, norm_stmt, callee_name, callee_func, call_paths, strip_views, const_val)

# the one exception named by the property statement
ALLOWED_MUTATION = {
    ('pb_bss.evaluation.sxr_module::set_snr', 'N'): 'set_snr(inplace=True) rescales the noise in place by documented contract',
}
NONDET_LIBS = ('time.', 'random.', 'os.urandom', 'uuid.', 'datetime.', 'secrets.', 'os.getpid', 'os.times')
RNG_ALLOWED_FUNCS = ('sample', 'uniform_normalized', 'dirichlet', 'one_hot', 'dirichlet_uniform')

MIXTURE_TRAINERS = [
    'pb_bss.distribution.cacgmm::CACGMMTrainer', 'pb_bss.distribution.cwmm::CWMMTrainer', 'pb_bss.distribution.cbmm::CBMMTrainer',
    'pb_bss.distribution.gmm::GMMTrainer', 'pb_bss.distribution.vmfmm::VMFMMTrainer',
    'pb_bss.distribution.gcacgmm::GCACGMMTrainer', 'pb_bss.distribution.vmfcacgmm::VMFCACGMMTrainer',
]


def effect_target_roots(tv):
    certain, maybe = set(), set()
    for a in tv.alias:
        if a and a[0] == 'maybe':
            maybe.add(tuple(a[1:]))
        else:
            certain.add(tuple(a))
    return certain, maybe


def is_array_like(tv):
    """could the mutated value be an ndarray (python scalars / tuples / strings are immutable, list/dict are not arrays)"""
    if tv.kind is TOP:
        if tv.const is not TOP and tv.const:
            return False
        return True
    return bool(tv.kind & {'array'})


def effect_desc(e):
    if isinstance(e, tuple):
        return f'{e[0]}:{e[1]}', getattr(e[2], 'node', None)
    return f'{e.kind}:{(e.data or {}).get("how", "")}', e.node


def check_mut(run, A):
    ev = A.ev
    entries = public_callables(A.prog, SCOPE_MODULES_C20)
    run.floor('public callables under R-MUT', len(entries), 120)
    n_effects = 0
    global_effects = {}
    for fn in entries:
        try:
            ctx = ev.entry(fn)
        except RecursionError:
            run.unresolved('R-MUT', fn.qual, fn.loc(), 'recursion limit')
            continue
        bad, unres = {}, {}
        for c in ctx_tree(ctx):
            for (e, tv, _v) in c.effects:
                kind, node = effect_desc(e)
                # module-level objects (caches, registries) mutated by a call: hidden state shared by all later calls / objects
                for a in tv.alias:
                    if a and a[0] == 'global':
                        global_effects.setdefault((a[1], a[2], c.fn.qual), []).append((c, node, kind))
                if kind.startswith('container'):
                    # list / dict methods that change their receiver: the function's own ** dict is its own; a VALUE taken out of it, or a list / dict parameter, is the caller's
                    for a in tv.alias:
                        r = tuple(a[1:]) if a and a[0] == 'maybe' else tuple(a)
                        if len(r) == 3 and r[0] == 'param' and r[1] == fn.qual:
                            own = r[2].startswith('**') and not (a and a[0] == 'maybe')
                            if not own and not r[2].startswith('self'):
                                bad.setdefault((r[2].lstrip('*') + (' (a value passed in it)' if r[2].startswith('**') else ''), kind, c.fn.qual, norm_stmt(node) if node is not None else ''), (c, node))
                    continue
                n_effects += 1
                certain, maybe = effect_target_roots(tv)
                if not is_array_like(tv):
                    continue
                for r in certain:
                    if r[0] == 'param' and r[1] == fn.qual:
                        bad.setdefault((r[2], kind, c.fn.qual, norm_stmt(node) if node is not None else ''), (c, node))
                    elif r[0] == 'field':
                        bad.setdefault((r[1], kind, c.fn.qual, norm_stmt(node) if node is not None else ''), (c, node))
                for r in maybe:
                    if (r[0] == 'param' and r[1] == fn.qual) or r[0] == 'field':
                        unres.setdefault((r[-1], kind, c.fn.qual), (c, node))
        if fn.name in ('__init__', '__post_init__'):
            # constructors legitimately store into the object under construction; parameters still must not be mutated
            bad = {k: v for k, v in bad.items() if not k[0].startswith('self.')}
        for (root, kind, where, stmt), (c, node) in sorted(bad.items(), key=lambda kv: str(kv[0])):
            if (fn.qual, root) in ALLOWED_MUTATION:
                run.ok('R-MUT', f'{fn.qual} param {root} [listed exception]', c.fn.loc(node), ALLOWED_MUTATION[(fn.qual, root)])
                continue
            run.violation('R-MUT', f'{fn.qual} mutates {root}', c.fn.loc(node),
                          f'in-place effect `{stmt}` ({kind}) in {where} reaches memory of argument/field `{root}` of public callable {fn.qual}',
                          construct=f'R-MUT::{fn.qual}::{root}::{where}::{kind}', path=c.chain())
        for (root, kind, where), (c, node) in sorted(unres.items(), key=lambda kv: str(kv[0])):
            run.unresolved('R-MUT', f'{fn.qual} may mutate {root}', c.fn.loc(node), f'{kind} in {where} on a value that may alias `{root}` through an unmodelled operation')
        if not bad:
            run.ok('R-MUT', fn.qual, fn.loc(), 'no in-place effect reaches a parameter or stored field')
    report_global_effects(run, global_effects)
    run.count('in-place effects examined', n_effects)
    # positive example that must match on every run: set_snr mutates N
    pos = [i for i in run.items if i['rule'] == 'R-MUT' and 'listed exception' in i['instance']]
    if not pos:
        raise AnalysisError('R-MUT positive control (set_snr mutating N in place) was not recognised')


def check_broadcast_writes(run, A, module_prefixes=None, rule='R-OVERLAP'):
    """R-OVERLAP (expected count zero): no in-place effect lands on a broadcast view.  The elements of `np.broadcast_to(x, shape)` / `np.broadcast_arrays(x, ..)` along an
    expanded axis are ONE memory location (stride 0): an in-place update with operands that differ along that axis is applied to the shared location once per index - the
    slices of the leading axes are no longer independent problems (C06), and what the result is depends on numpy's buffering (C20).  numpy makes `broadcast_to` read-only for
    that reason; `broadcast_arrays` is still writable (deprecated).  The tag travels with the value through views, conditionals and calls (context tree of every public callable)."""
    ev = A.ev
    entries = public_callables(A.prog, SCOPE_MODULES_C20)
    n, seen = 0, set()
    for fn in entries:
        if module_prefixes and not any(fn.mod.name.startswith(p_.rstrip('.')) for p_ in module_prefixes):
            continue
        try:
            ctx = ev.entry(fn)
        except RecursionError:
            continue
        for c in ctx_tree(ctx):
            for (e, tv, _v) in c.effects:
                kind, node = effect_desc(e)
                if kind.startswith('container') or not is_array_like(tv):
                    continue
                n += 1
                tags = sorted({a[-1] for a in tv.alias if a and (a[0] == 'bcast' or (a[0] == 'maybe' and len(a) > 1 and a[1] == 'bcast'))})
                if not tags:
                    continue
                key = (c.fn.qual, norm_stmt(node) if node is not None else kind)
                if key in seen:
                    continue
                seen.add(key)
                run.violation(rule, f'{c.fn.qual}: no in-place write to a broadcast view', c.fn.loc(node),
                              f'in-place effect `{key[1]}` ({kind}) may land on the result of {" / ".join(tags)}: the elements along an expanded axis share one memory '
                              f'location, the update is applied to it once per index and the leading slices are no longer computed independently',
                              construct=f'{rule}::{c.fn.qual}::{key[1]}', path=c.chain())
    run.count('in-place effects examined for broadcast views', n)
    return n


def report_global_effects(run, effects):
    """effects: (module, object, function) -> [(context, AST node, kind)] in-place effects that reach a module-level object.  A keyed store `TABLE[key] = value` whose value is computed from
    the key alone is a memo of a pure function (history-free); a value that depends on something the key ignores, an identity / rounded key, and every other kind of effect (a slot
    overwritten, an attribute of a shared object set, a shared array written) make later results depend on earlier calls (pbv/cachekey.py)"""
    from ..cachekey import table_effect_verdict
    for (modname, obj, qual), effs in sorted(effects.items(), key=lambda kv: kv[0]):
        memo = obj.startswith('<results memoised')
        worst = None
        for (c, node, kind) in effs:
            v = None if memo else table_effect_verdict(c.fn, node, obj)
            if v is None:
                v = ('violation', None)
            if worst is None or {'ok': 0, 'unresolved': 1, 'violation': 2}[v[0]] > {'ok': 0, 'unresolved': 1, 'violation': 2}[worst[0][0]]:
                worst = (v, c, node, kind)
        (verdict_, why), c, node, kind = worst
        stmt = norm_stmt(node) if node is not None else kind
        if verdict_ == 'ok':
            run.ok('R-STATE', f'{qual} fills the module-level table {obj}', c.fn.loc(node), f'`{stmt}`: {why} - a memo of a pure function')
        elif verdict_ == 'unresolved':
            run.unresolved('R-STATE', f'{qual} fills the module-level table {obj}', c.fn.loc(node), f'`{stmt}`: {why}')
        else:
            run.violation('R-STATE', f'{qual} mutates {"a memoised result" if memo else "module-level object"} {obj}', c.fn.loc(node),
                          (f'`{stmt}` writes into an array returned by a memoising function ({obj[1:-1]}): every later call with '
                           f'equal arguments receives the SAME, now modified, object - results depend on the history of earlier calls' if memo else
                           f'`{stmt}` writes into the module global `{modname}.{obj}`: results depend on the history of earlier calls '
                           + (f'({why})' if why else '(state that is overwritten, or an object shared through it that is changed, is seen by every later call)')),
                          construct=f'R-STATE::{qual}::global-mutation::{obj}', path=c.chain())


def check_module_state(run, A, module_prefixes):
    """R-STATE restricted to some modules (shared with the properties that need the functions of these modules to be pure functions of their arguments): no public callable
    reaches an in-place effect on a module-level object"""
    ev = A.ev
    effects = {}
    n = 0
    for fn in public_callables(A.prog, SCOPE_MODULES_C20):
        if not any(fn.mod.name == p.rstrip('.') or fn.mod.name.startswith(p) for p in module_prefixes):
            continue
        try:
            ctx = ev.entry(fn)
        except RecursionError:
            continue
        for c in ctx_tree(ctx):
            for (e, tv, _v) in c.effects:
                kind, node = effect_desc(e)
                for a in tv.alias:
                    if a and a[0] == 'global' and not a[2].startswith('<results memoised'):
                        n += 1
                        effects.setdefault((a[1], a[2], c.fn.qual), []).append((c, node, kind))
    report_global_effects(run, effects)
    run.count('effects on module-level objects examined', n)


def check_instance_tables(run, A, module_prefixes):
    """a dict / list that an object creates in __init__ and that one of its other methods both fills and reads is a memo carried from one call - and from one iteration of a
    loop over classes / frequencies - to the next: the value computed for the first entry that reaches a cell is handed to every later one (syntactic rule on the class bodies)"""
    import ast as _ast
    n = 0
    for mod in A.prog.mods.values():
        if not any(mod.name == p.rstrip('.') or mod.name.startswith(p) for p in module_prefixes):
            continue
        for cls in mod.classes.values():
            init = cls.methods.get('__init__') or cls.methods.get('__post_init__')
            if init is None:
                continue
            tables = set()
            for st in _ast.walk(init.node):
                if isinstance(st, _ast.Assign) and len(st.targets) == 1 and isinstance(st.targets[0], _ast.Attribute) and isinstance(st.targets[0].value, _ast.Name) \
                        and st.targets[0].value.id == 'self' and (isinstance(st.value, (_ast.Dict, _ast.List)) and not (getattr(st.value, 'keys', None) or getattr(st.value, 'elts', None))
                                                                    or (isinstance(st.value, _ast.Call) and isinstance(st.value.func, _ast.Name) and st.value.func.id in ('dict', 'list', 'OrderedDict', 'defaultdict'))):
                    tables.add(st.targets[0].attr)
            for name in sorted(tables):
                for m in cls.methods.values():
                    if m is init:
                        continue
                    writes = [x for x in _ast.walk(m.node) if (isinstance(x, _ast.Subscript) and isinstance(x.ctx, _ast.Store) and isinstance(x.value, _ast.Attribute) and x.value.attr == name
                                                                and isinstance(x.value.value, _ast.Name) and x.value.value.id == 'self')
                              or (isinstance(x, _ast.Call) and isinstance(x.func, _ast.Attribute) and x.func.attr in ('setdefault', 'update', 'append') and isinstance(x.func.value, _ast.Attribute)
                                  and x.func.value.attr == name and isinstance(x.func.value.value, _ast.Name) and x.func.value.value.id == 'self')]
                    reads = [x for x in _ast.walk(m.node) if isinstance(x, _ast.Attribute) and x.attr == name and isinstance(x.value, _ast.Name) and x.value.id == 'self'
                             and isinstance(x.ctx, _ast.Load)]
                    n += 1
                    if writes and len(reads) > len(writes):
                        # is it a memo of a pure function of the key?  (pbv/cachekey.py; the object's own attributes are constants of its table)
                        from ..cachekey import keyed_stores, verdict as key_verdict
                        self_name = m.params[0] if m.params else 'self'
                        stores = keyed_stores(m.node, lambda x: isinstance(x, _ast.Attribute) and x.attr == name and isinstance(x.value, _ast.Name) and x.value.id == self_name)
                        covered = {id(y) for st_, _k, _v in stores for y in _ast.walk(st_)}
                        verdicts = [key_verdict(m.node, k_, v_, self_name=self_name, instance_config=True, methods={mm.name: mm.node for mm in cls.methods.values()}) for _st, k_, v_ in stores]
                        if any(id(w) not in covered for w in writes):
                            verdicts.append(('unresolved', 'the table is also filled by a statement that is not a keyed store `table[key] = value`'))
                        worst = max(verdicts, key=lambda v_: {'ok': 0, 'unresolved': 1, 'violation': 2}[v_[0]])
                        what = f'{m.qual}: a table created in __init__ is filled and read while results are computed'
                        if worst[0] == 'ok':
                            run.ok('R-STATE', what, m.loc(writes[0]), f'`self.{name}`: {worst[1]} - a memo of a pure function')
                        elif worst[0] == 'unresolved':
                            run.unresolved('R-STATE', what, m.loc(writes[0]), f'`self.{name}`: {worst[1]}')
                        else:
                            run.violation('R-STATE', what, m.loc(writes[0]),
                                          f'`self.{name}` is a lookup table that {m.name} fills and reads: what is computed for one entry (class, frequency, call) is handed to later entries that '
                                          f'hit the same cell - the result depends on the order in which the entries are visited and on earlier calls ({worst[1]})',
                                          construct=f'R-STATE::{m.qual}::instance-table::{name}')
    run.count('tables created in constructors examined', n)


def self_attr_reads(graph):
    out = set()
    if graph.self_name is None:
        return out
    selfp = graph.params.get(graph.self_name)
    for e in graph.events:
        for t in walk_terms(e.term) if e.term is not None else ():
            if t.op == 'attr' and t.args[0] is selfp:
                out.add(t.args[1])
    for t in walk_terms(graph.ret):
        if t.op == 'attr' and t.args[0] is selfp:
            out.add(t.args[1])
    return out


def guard_tests_attr_is_none(guards, selfp, attr):
    """is there a guard `self.attr is None` with polarity True?"""
    for cond, pol in guards:
        for t in walk_terms(cond, into_mu=False):
            if t.op == 'cmp' and t.args[0] in ('Is', 'IsNot'):
                l, r = t.args[1], t.args[2]
                if l.op == 'attr' and l.args[0] is selfp and l.args[1] == attr and r.op == 'const' and r.args[0] is None:
                    want = (t.args[0] == 'Is')
                    if pol == want:
                        return True
    return False


def implies_is_none(cond, pol, param):
    """does `cond == pol` imply `param is None`?"""
    if cond.op == 'cmp' and cond.args[2].op == 'const' and cond.args[2].args[0] is None and strip_views(cond.args[1]) is param:
        return (cond.args[0] == 'Is' and pol) or (cond.args[0] == 'IsNot' and not pol)
    if cond.op == 'unop' and cond.args[0] == 'Not':
        return implies_is_none(cond.args[1], not pol, param)
    if cond.op == 'bool':
        parts = cond.args[1]
        if (cond.args[0] == 'And') == bool(pol):
            # (a and b) true  /  (a or b) false: every conjunct holds with polarity pol
            return any(implies_is_none(p, pol, param) for p in parts)
        return all(implies_is_none(p, pol, param) for p in parts)
    return False


def check_mutable_defaults(run, A, module_prefixes=None):
    """R-STATE: a default argument that is a mutable container (`summary={}`, `cache=[]`, `dict()`) is ONE object shared by all calls.  When the function writes into
    it or hands it out (returns it, stores it), results of one call show up in - and are changed by - later calls.  Judged for every function of the scope, helpers
    introduced later included (such a helper cannot be evaluated in place: it has hidden state)."""
    import ast
    n = 0
    prefixes = module_prefixes or SCOPE_MODULES_C20
    for fn in A.prog.all_funcs():
        if not any(fn.mod.name == p_.rstrip('.') or fn.mod.name.startswith(p_) for p_ in prefixes):
            continue
        for pname, d in fn.defaults.items():
            mutable = isinstance(d, (ast.Dict, ast.List, ast.Set, ast.DictComp, ast.ListComp, ast.SetComp)) or \
                (isinstance(d, ast.Call) and isinstance(d.func, ast.Name) and d.func.id in ('dict', 'list', 'set', 'defaultdict', 'OrderedDict', 'bytearray')) or \
                (isinstance(d, ast.Call) and ast.unparse(d.func).split('.')[-1] in ('zeros', 'ones', 'empty', 'array', 'defaultdict', 'OrderedDict'))
            if not mutable:
                continue
            n += 1
            used = []
            for x in ast.walk(fn.node):
                if isinstance(x, ast.Subscript) and isinstance(x.ctx, (ast.Store, ast.Del)) and isinstance(x.value, ast.Name) and x.value.id == pname:
                    used.append('written by key / index')
                elif isinstance(x, ast.AugAssign) and isinstance(x.target, ast.Name) and x.target.id == pname:
                    used.append('updated in place')
                elif isinstance(x, ast.Call) and isinstance(x.func, ast.Attribute) and isinstance(x.func.value, ast.Name) and x.func.value.id == pname and \
                        x.func.attr in ('append', 'extend', 'insert', 'update', 'setdefault', 'add', 'pop', 'popitem', 'remove', 'clear', 'sort', 'fill'):
                    used.append(f'.{x.func.attr}()')
                elif isinstance(x, ast.Return) and isinstance(x.value, ast.Name) and x.value.id == pname:
                    used.append('returned')
            run.check(not used, 'R-STATE', f'{fn.qual}: mutable default `{pname}` is not written or handed out', fn.loc(), '',
                      f'`{pname}={ast.unparse(d)}` is one object for all calls and is {", ".join(sorted(set(used)))}: what one call puts into it is seen (and overwritten) by the next',
                      construct=f'R-STATE::{fn.qual}::mutable-default::{pname}')
    run.count('mutable default arguments examined', n)


def check_memoised_results(run, A):
    """R-STATE: a PUBLIC function that memoises its results (functools.lru_cache / cache) and returns arrays hands the same writable objects to every caller with equal
    arguments: what one caller does to its result is what the next caller receives.  Accepted: results that are not arrays (numbers, strings, tuples of those), arrays
    that the function marks read-only (`setflags(write=False)` / `.flags.writeable = False`) before returning them, and private helpers (their call sites are inside the
    package: an in-place effect that reaches their result is reported by the effect analysis)."""
    from ..absint import MEMOISING_DECORATORS
    n = 0
    for fn in A.prog.all_funcs():
        if not any(fn.mod.name == m.rstrip('.') or fn.mod.name.startswith(m) for m in SCOPE_MODULES_C20):
            continue
        if not (fn.decorators & (MEMOISING_DECORATORS - {'cached_property'})):
            continue
        n += 1
        if fn.name.startswith('_'):
            run.ok('R-STATE', f'{fn.qual}: memoised private helper', fn.loc(), 'call sites are inside the package; effects on its results are judged there')
            continue
        try:
            res = A.ev.entry(fn).result
        except Exception:
            res = None

        def has_array(v, depth=0):
            if v is None or depth > 3:
                return None
            if v.tup is not None:
                rs = [has_array(x, depth + 1) for x in v.tup]
                return True if any(r is True for r in rs) else (None if any(r is None for r in rs) else False)
            if v.kind is TOP:
                return None
            return bool(v.kind & {'array', 'list', 'dict'})
        arr = has_array(res)
        frozen = any(isinstance(x, ast.Attribute) and x.attr in ('setflags', 'writeable') for x in ast.walk(fn.node))
        if arr is False or frozen:
            run.ok('R-STATE', f'{fn.qual}: memoised results are immutable', fn.loc(), 'no array among the results' if arr is False else 'marked read-only before they are returned')
        elif arr is None:
            run.unresolved('R-STATE', f'{fn.qual}: memoised results are immutable', fn.loc(), 'kind of the returned value not decided')
        else:
            run.violation('R-STATE', f'{fn.qual}: a public function does not hand the same writable arrays to every caller', fn.loc(),
                          'the function is memoised and returns arrays: every call with equal arguments returns the SAME objects, so what a caller writes into its result is '
                          'what the next call returns - results depend on the history of earlier calls', construct=f'R-STATE::{fn.qual}::memoised-arrays')
    run.count('memoising functions in scope', n)


def check_state(run, A):
    check_memoised_results(run, A)
    prog, ev = A.prog, A.ev
    scope = public_callables(prog, SCOPE_MODULES_C20, include_private=True)
    n_setattr = 0
    lazily_set = {}
    from ..terms import known_funcs
    for fn in scope:
        if fn.qual not in known_funcs():
            continue          # a helper introduced later: inlined at its call sites, its attribute stores are judged there
        g = A.graphs.get(fn)
        # (a) global / class attribute writes
        for e in g.events:
            if e.kind in ('global_decl', 'global_write'):
                run.violation('R-STATE', f'{fn.qual} global {e.data}', fn.loc(e.node), 'function declares/writes a module global',
                              construct=f'R-STATE::{fn.qual}::global')
        selfp = g.params.get(g.self_name) if g.self_name else None
        for e in g.events:
            if e.kind != 'setattr':
                continue
            n_setattr += 1
            base = e.data['base']
            attr = e.data['attr']
            if base.op == 'ref' and isinstance(base.args[0], (Cls,)) or (base.op == 'ref' and not isinstance(base.args[0], (Func,))):
                run.violation('R-STATE', f'{fn.qual} writes {attr} of a class/module', fn.loc(e.node), norm_stmt(e.node),
                              construct=f'R-STATE::{fn.qual}::classattr::{attr}')
                continue
            if base is not selfp and strip_views(base).op in ('caught', 'exc'):
                run.ok('R-STATE', f'{fn.qual} sets {attr} on the exception it is handling', fn.loc(e.node), 'the exception object was created by the failing call, not by the caller')
                continue
            if base is not selfp:
                # attribute store on some other object: allowed only on objects created in this function
                ctx = ev.entry(fn)
                bv = ev.eval(base, ctx)
                roots = {a for a in bv.alias} | ({('obj', bv.obj.origin)} if bv.obj is not None else set())
                shared = sorted(a[-1] for a in bv.alias if a and (a[0] == 'global' or (a[0] == 'maybe' and len(a) > 1 and a[1] == 'global')))
                if shared:
                    run.violation('R-STATE', f'{fn.qual} mutates module-level object {shared[0]}', fn.loc(e.node),
                                  f'`{norm_stmt(e.node)}` sets an attribute of an object that is kept in the module global `{shared[0]}`: every later user of that entry sees the change '
                                  f'- results depend on the history of earlier calls', construct=f'R-STATE::{fn.qual}::global-mutation::{shared[0]}')
                elif bv.obj is not None and str(bv.obj.origin).startswith('new '):
                    run.ok('R-STATE', f'{fn.qual} sets {attr} on a fresh object', fn.loc(e.node))
                else:
                    run.unresolved('R-STATE', f'{fn.qual} sets {attr} on non-self object', fn.loc(e.node), norm_stmt(e.node))
                continue
            if fn.name in ('__init__', '__post_init__'):
                continue
            # (b) lazily initialised trainer attribute
            ok_guard = guard_tests_attr_is_none(e.guards, selfp, attr)
            if not ok_guard:
                # `try: check() except LookupError: self.attr = v` where the only way to get that exception is `if self.attr is None: raise LookupError`
                for c_, p_ in e.guards:
                    if c_.op == 'caught' and p_:
                        exc = strip_views(c_.args[0])
                        raised = [e2 for e2 in g.events if e2.kind == 'raise' and e2.term is not None and strip_views(e2.term).op == 'call'
                                  and (strip_views(strip_views(e2.term).args[0]) is exc or (exc.op == 'ref' and strip_views(strip_views(e2.term).args[0]).op == 'ref'
                                                                                            and strip_views(strip_views(e2.term).args[0]).args[0] == exc.args[0]))]
                        if raised and all(guard_tests_attr_is_none(e2.guards, selfp, attr) for e2 in raised):
                            ok_guard = True
            has_assert = False
            for e2 in g.events:
                if e2.kind == 'assert' and e2.term is not None:
                    for t in walk_terms(e2.term, into_mu=False):
                        if t.op == 'cmp' and t.args[0] == 'Eq' and any(x.op == 'attr' and x.args[0] is selfp and x.args[1] == attr
                                                                       for a_ in t.args[1:] for x in walk_terms(a_, into_mu=False)):
                            # asserted on the branch where the attribute was already set, or unconditionally after the lazy write
                            if guard_tests_attr_is_none([(c, not p) for c, p in e2.guards], selfp, attr) or \
                                    (e2.seq > e.seq and not any(any(x.op == 'attr' and x.args[0] is selfp and x.args[1] == attr for x in walk_terms(c, into_mu=False)) for c, _ in e2.guards)):
                                has_assert = True
            lazily_set.setdefault((fn.cls.qual, attr), []).append(fn.qual)
            if attr == 'dimension':
                # what is remembered / compared is the FEATURE dimension of the observation: the last axis (a leading axis has nothing to do with the
                # tables the trainer caches, and happens to agree between calls with the same batch size)
                def feature_dim(t):
                    from ..walk import shape_dim
                    sd = shape_dim(t)          # x.shape[-1] / *_, D = x.shape / _, D = x.shape[-2:] ...
                    return sd is not None and sd[1] == -1 and any(x.op == 'param' and x is not selfp for x in walk_terms(sd[0], into_mu=False))
                okv = feature_dim(e.term)
                cmps = []
                for e2 in g.events:
                    if e2.kind == 'assert' and e2.term is not None:
                        for t in walk_terms(e2.term, into_mu=False):
                            if t.op == 'cmp' and t.args[0] == 'Eq':
                                sides = [strip_views(t.args[1]), strip_views(t.args[2])]
                                mine = [x for x in sides if x.op == 'attr' and x.args[0] is selfp and x.args[1] == attr]
                                if len(mine) == 1:
                                    cmps.append(sides[1] if sides[0] is mine[0] else sides[0])
                okc = all(feature_dim(x) for x in cmps)
                run.check(okv and okc, 'R-STATE', f'{fn.qual}: the remembered dimension is the feature dimension', fn.loc(e.node), '',
                          f'stored value is <observation>.shape[-1]: {okv}; the mismatch assert compares with <observation>.shape[-1]: {okc}',
                          construct=f'R-STATE::{fn.qual}::dimension-is-last-axis')
            run.check(ok_guard and has_assert, 'R-STATE', f'{fn.qual} lazily sets self.{attr}', fn.loc(e.node),
                      'written only when None, asserted equal otherwise',
                      f'`{norm_stmt(e.node)}`: attribute of a reusable object is overwritten outside __init__ '
                      f'(guarded by `is None`: {ok_guard}; mismatch assert on the other branch: {has_assert})',
                      construct=f'R-STATE::{fn.qual}::setattr::{attr}')
    run.count('attribute stores examined', n_setattr)
    # (c) cached properties read only constructor attributes (or lazily set ones checked above)
    n_cached = 0
    for c in prog.all_classes():
        if not any(c.mod.name.startswith(p) for p in SCOPE_MODULES_C20):
            continue
        init = c.methods.get('__init__')
        init_attrs = set()
        if init is not None:
            gi = A.graphs.get(init)
            init_attrs = {e.data['attr'] for e in gi.events if e.kind == 'setattr' and e.data['base'] is gi.params.get(gi.self_name)}
        for m in c.methods.values():
            if 'cached_property' not in m.decorators:
                continue
            n_cached += 1
            reads = self_attr_reads(A.graphs.get(m))
            methods = {r for r in reads if prog.method(c, r) is not None}
            other = reads - init_attrs - methods
            run.check(not other, 'R-STATE', f'{m.qual} cached table inputs', m.loc(),
                      f'reads only constructor attributes {sorted(reads & init_attrs)}',
                      f'cached_property reads attributes not fixed by __init__: {sorted(other)}',
                      construct=f'R-STATE::{m.qual}::cached-reads')
            # every attribute it reads that is re-assigned later must follow the lazily-set protocol (checked above as its own obligation)
    run.floor('cached_property tables', n_cached, 4)
    # stateful trainers must reject a different feature dimension
    want = ['pb_bss.distribution.cwmm::CWMMTrainer', 'pb_bss.distribution.cbmm::CBMMTrainer',
            'pb_bss.distribution.complex_watson::ComplexWatsonTrainer', 'pb_bss.distribution.complex_bingham::ComplexBinghamTrainer']
    for q in want:
        c = prog.cls(q)
        run.check((q, 'dimension') in lazily_set, 'R-STATE', f'{q} dimension protocol', c.methods['fit'].loc() if 'fit' in c.methods else '',
                  'dimension inferred on first fit and asserted afterwards',
                  'trainer caches dimension-dependent tables but has no `dimension is None` / assert protocol in fit',
                  construct=f'R-STATE::{q}::dimension-protocol')


def rng_and_nondet(run, A):
    prog, ev = A.prog, A.ev
    n_rng = 0
    # (d1) mixture trainers: rng only when `initialization is None`
    for q in MIXTURE_TRAINERS:
        c = prog.cls(q)
        fit = c.methods.get('fit')
        if fit is None:
            raise AnalysisError(f'{q}.fit vanished')
        ctx = ev.entry(fit)
        sites = 0
        for cx in ctx_tree(ctx):
            for cf in cx.callfacts:
                name = callee_name(cf)
                if name.startswith('numpy.random.'):
                    sites += 1
                    n_rng += 1
                    # find the event to get guards
                    ev_ = next((e for e in cx.graph.events if e.kind == 'call' and e.term is cf.term), None)
                    guarded = False
                    if cx.fn is fit and ev_ is not None:
                        initp = cx.graph.params.get('initialization')
                        for cond, pol in ev_.guards:
                            if implies_is_none(cond, pol, initp):
                                guarded = True
                    run.check(guarded, 'R-STATE', f'{fit.qual} rng draw {name}', cx.fn.loc(cf.term.node),
                              'random start drawn only when initialization is None',
                              'random numbers drawn although an initialization may have been given (result no longer a function of the arguments)',
                              construct=f'R-STATE::{fit.qual}::rng-unguarded::{cx.fn.qual}', path=cx.chain())
                if any(name.startswith(p) for p in NONDET_LIBS) or name in ('builtin.id', 'builtin.hash'):
                    run.violation('R-STATE', f'{fit.qual} nondeterminism {name}', cx.fn.loc(cf.term.node), 'nondeterministic source on a fit path',
                                  construct=f'R-STATE::{fit.qual}::nondet::{name}', path=cx.chain())
        if sites == 0:
            raise AnalysisError(f'{fit.qual}: random initialisation site not found')
    run.floor('rng sites in mixture trainers', n_rng, 7)
    # (d2) everything else in scope: no rng outside sampling functions / iid initialisers, no wall-clock etc.
    for fn in public_callables(prog, SCOPE_MODULES_C20):
        if fn.cls is not None and fn.cls.qual in MIXTURE_TRAINERS:
            continue
        if any(fn.name.startswith(p) or (fn.cls is not None and fn.name == 'sample') for p in RNG_ALLOWED_FUNCS) or fn.mod.name.endswith('initializer.iid'):
            continue
        ctx = ev.entry(fn)
        for cf, path in call_paths(ctx, lambda cf: True):
            name = callee_name(cf)
            if name.startswith('numpy.random.') or any(name.startswith(p) for p in NONDET_LIBS) or name in ('builtin.id', 'builtin.hash'):
                # a default argument `random_state=np.random` is the caller's choice and explicit
                inner = path[-1] if path else ''
                if inner.split('::')[-1].split('.')[-1].startswith(RNG_ALLOWED_FUNCS):
                    continue
                run.violation('R-STATE', f'{fn.qual} nondeterminism {name}', cf.ctx.fn.loc(cf.term.node),
                              'nondeterministic source reachable from a public deterministic function',
                              construct=f'R-STATE::{fn.qual}::nondet::{name}', path=path)


def check_loop_continuation(run, A):
    """R-LOOP: with a model as initialization the loop starts with the E-step; M-step inputs are defined for every init kind"""
    prog = A.prog
    fit = prog.func('pb_bss.distribution.cacgmm::CACGMMTrainer.fit')
    cacgmm = prog.cls('pb_bss.distribution.cacgmm::CACGMM')
    configs = {
        'num_classes (random start)': dict(initialization=cav(None), num_classes=AV(kind=frozenset(['scalar']), sign='POS')),
        'ndarray affiliation': dict(initialization=AV(kind=frozenset(['array']), deps=frozenset([('param', 'initialization')])), num_classes=cav(None)),
        'fitted model': dict(initialization=AV(kind=frozenset(['obj']), obj=A.ev.model_obj(cacgmm, 'initialization'),
                                               deps=frozenset([('param', 'initialization')])), num_classes=cav(None)),
    }
    for name, over in configs.items():
        ev = A.fresh_evaluator()
        ctx = ev.entry(fit, overrides=over)
        m_calls = [cf for cf in ctx.callfacts if (callee_func(cf) is not None and callee_func(cf).name == '_m_step')]
        e_calls = [cf for cf in ctx.callfacts if (callee_func(cf) is not None and callee_func(cf).name == '_predict')]
        if not m_calls:
            raise AnalysisError('CACGMMTrainer.fit: M-step call not found')
        for cf in m_calls:
            undefined = [k for k, v in cf.args.items() if is_bot(v)]
            run.check(not undefined, 'R-LOOP', f'CACGMMTrainer.fit [{name}] M-step inputs defined', fit.loc(cf.term.node),
                      f'all {len(cf.args)} M-step arguments definitely assigned',
                      f'M-step arguments possibly unassigned on this path: {undefined}',
                      construct=f'R-LOOP::cacgmm.fit::{name}::m-step-undefined')
        if name == 'fitted model':
            run.check(bool(e_calls), 'R-LOOP', 'CACGMMTrainer.fit [fitted model] starts with the E-step', fit.loc(),
                      'the first iteration calls model._predict before the M-step',
                      'continuing from a model does not run an E-step with that model',
                      construct='R-LOOP::cacgmm.fit::continuation-e-step')
            # the E-step must be evaluated on the *given* model in the first iteration: its receiver may be the initialization
            recv_ok = any(('param', 'initialization') in (cf.args.get('self').deps if cf.args.get('self') is not None else ()) for cf in e_calls)
            run.check(recv_ok, 'R-LOOP', 'CACGMMTrainer.fit [fitted model] E-step uses the given model', fit.loc(),
                      'receiver of _predict may be the initialization object', 'E-step receiver never is the given model',
                      construct='R-LOOP::cacgmm.fit::continuation-receiver')


def check_estep_siblings(run, A):
    """continuation = uninterrupted fit: every E-step call site of a trainer's EM function (in the loop, or hoisted in front of it for a
    given model) is the same E-step - same option arguments, and followed by the inline aligner wherever a sibling is"""
    from .. import loop as LP
    from ..walk import call_parts, struct_eq
    n = 0
    for cname in LP.TRAINERS:
        L = LP.recognise(A, cname)
        g, fn = L.graph, L.fn
        sites = [e.term for e in g.events if e.kind == 'call' and (call_parts(e.term)[0] or '') in ('method:_predict', 'method:predict')]
        if not sites:
            raise AnalysisError(f'{fn.qual}: E-step call not found')
        n += len(sites)
        ref = [t for t in sites if any(t is e.term for e in L.e_calls)] or sites[:1]
        r_pos, r_kw = call_parts(ref[0])[1][1:], call_parts(ref[0])[2]
        aligned = {}
        for e in g.events:
            if e.kind == 'call' and (call_parts(e.term)[0] or '').endswith('apply_inline_permutation_alignment'):
                a = strip_views(call_parts(e.term)[2].get('affiliation') or (call_parts(e.term)[1][0] if call_parts(e.term)[1] else None))
                while a is not None and a.op == 'unpack':
                    a = strip_views(a.args[0])
                aligned[id(a)] = True
        for t in sites:
            pos, kw = call_parts(t)[1][1:], call_parts(t)[2]
            same = len(pos) == len(r_pos) and set(kw) == set(r_kw) and all(struct_eq(strip_views(x), strip_views(y)) for x, y in zip(pos, r_pos)) \
                and all(struct_eq(strip_views(kw[k]), strip_views(r_kw[k])) for k in kw)
            missing = sorted(set(r_kw) - set(kw))
            run.check(same, 'R-SIB', f'{cname}Trainer: E-step at line {getattr(t.node, "lineno", "?")} takes the same options as the E-step of the loop', fn.loc(t.node), '',
                      f'this E-step call differs from the one inside the EM loop (options not passed: {missing}): a fit continued from a returned model does not '
                      f'reproduce the corresponding iteration of an uninterrupted fit', construct=f'R-SIB::{fn.qual}::e-step-options')
            if aligned:
                run.check(id(t) in aligned, 'R-SIB', f'{cname}Trainer: E-step at line {getattr(t.node, "lineno", "?")} is followed by the inline aligner like its sibling', fn.loc(t.node), '',
                          'this E-step result bypasses apply_inline_permutation_alignment while the E-step of the loop goes through it', construct=f'R-SIB::{fn.qual}::e-step-aligner')
    run.floor('E-step call sites of the 7 EM loops', n, 7)


def check(run):
    A = run.A
    check_estep_siblings(run, A)
    run.explanation = (
        'Static may-alias + in-place-effect analysis over the call tree of every public callable of the mixture, beamforming, '
        'masking, alignment, metric, initializer and solve modules (context-sensitive abstract interpretation of the gated-SSA '
        'term graphs; numpy view/copy semantics from a table); hidden-state rules (no global/class writes, lazily set trainer '
        'attributes under an `is None` + assert protocol, cached tables read constructor attributes only); nondeterminism '
        'sources (np.random only, and only when initialization is None in the seven mixture trainers); continuation of a cACGMM '
        'fit from a model (E-step first, all M-step inputs definitely assigned per initialisation kind). Decides the structural '
        'necessary conditions of C20, not bit-exact reproducibility.')
    run.trusted = ['numpy view/copy table in pbv/nptable.py', 'list of nondeterministic library prefixes', 'exception: set_snr(inplace=True)']
    run.assumptions = ['objects returned by library calls not in the table may alias any argument (counted as unresolved, never a violation)',
                       'the Cython extensions (.pyx) are not built on this image and not analysed']
    check_mut(run, A)
    check_broadcast_writes(run, A)
    check_state(run, A)
    check_instance_tables(run, A, ('pb_bss.distribution.', 'pb_bss.extraction.', 'pb_bss.permutation_alignment', 'pb_bss.evaluation.'))
    check_mutable_defaults(run, A)
    rng_and_nondet(run, A)
    check_loop_continuation(run, A)
