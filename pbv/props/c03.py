"""C03 - the true partition of separable data is a stable EM fixed point (orientation conditions).

Decides the conditions whose inversion destroys the ranking of the classes while leaving shapes intact:
reciprocal eigenvalues in the cACG quadratic form, principal (last) eigh eigenpair for the Watson mode and
PCA, sign of the concentration / log-normaliser / log-determinant terms, whitening with the row index of the
precision Cholesky factor, both streams added for the integration models.
"""
from ..model import AnalysisError
from ..walk import call_parts, strip_views, unwrap_gamma
from .. import sel
from . import c07, c01

D = 'pb_bss.distribution.'


def check(run):
    A = run.A
    run.explanation = (
        'Orientation conditions decided on the current source: contraction structure and reciprocal eigenvalues of the cACG quadratic form, principal eigenpair '
        'selection (index -1 of the ascending eigh result on the eigenvector column axis) for the Watson mode, signs of the concentration / normaliser / determinant '
        'terms of every log_pdf (linearised return expressions), row-index whitening of the Gaussian, additive exponent-weighted streams of the integration models. '
        'The behavioural statement (arg-max posterior = true class for all separable data) is not decided.')
    run.trusted = ['numpy.linalg.eigh returns eigenvalues in ascending order', 'scikit-learn precision Cholesky contract']
    ck = c07.Checker(run, A)
    c07.check_cacg(ck)
    c07.check_watson(ck)
    c07.check_vmf(ck)
    c07.check_bingham(ck)
    c07.check_gaussians(ck)
    c07.close_terms(ck)
    # the scatter / covariance matrix the component trainers decompose is x x^H, not its transpose: eigh of the transpose returns the CONJUGATED eigenvectors, the density then
    # scores every observation against conj(prototype) (an einsum without output spec orders its letters alphabetically: 'D' before 'd')
    from .. import ein
    for q_ in (D + 'complex_angular_central_gaussian::ComplexAngularCentralGaussianTrainer._fit', D + 'complex_watson::ComplexWatsonTrainer._fit',
               D + 'complex_bingham::ComplexBinghamTrainer._fit'):
        for s_ in ein.find_sites(A, q_):
            if s_.parsed and len(s_.operands) >= 2:
                ein.check_generic(run, s_)
    # Watson mode / PCA: principal eigenpair
    n = sel.check_principal(run, A, 'pb_bss.utils::get_pca')
    # ... of EVERY matrix of the stack: a per-matrix loop uses its index (the partial scipy solver of get_pca does not, and is dormant)
    from .. import opt
    opt.check_extent_loops(run, A, ['pb_bss.utils', 'pb_bss.distribution.'])
    opt.check_block_partitions(run, A, ['pb_bss.utils', 'pb_bss.distribution.'])
    fit = A.prog.func(D + 'complex_watson::ComplexWatsonTrainer._fit')
    g = A.graphs.get(fit)
    # mode is the first result of get_pca(covariance), concentration from the second
    ret = strip_views(g.ret)
    name, pos, kw = call_parts(ret)
    ok = False
    if name == D + 'complex_watson::ComplexWatson':
        mode = kw.get('mode')
        conc = kw.get('concentration')
        if mode is not None and mode.op == 'unpack' and mode.args[1] == 0 and call_parts(strip_views(mode.args[0]))[0] == 'pb_bss.utils::get_pca':
            ok = conc is not None and any(x is mode.args[0] or (x.op == 'unpack' and x.args[0] is mode.args[0] and x.args[1] == 1)
                                          for x in __import__('pbv.terms', fromlist=['walk_terms']).walk_terms(conc))
    run.check(ok, 'R-SEL', 'ComplexWatsonTrainer._fit: mode = principal eigenvector, concentration from its eigenvalue', fit.loc(), '',
              'mode / concentration are not the (eigenvector, eigenvalue) pair returned by get_pca(covariance)', construct='R-SEL::ComplexWatsonTrainer._fit::pair')
    # integration models: both streams, exponent weighted, added (shared instance with C01)
    c01.check_models(run, A)
    # ... and the posterior that is reported uses the same preprocessing of every stream as the E-steps of the fit
    c01.check_predict_fit_symmetry(run, A)
    # ... and the inline-aligned variant of that E-step combines the streams with the permutation its search selected
    from . import c14
    c14.check_inline_pa(run, A)
    from .. import reshape as _rs
    _n = _rs.check_reshapes(run, A, [D + 'gcacgmm::GCACGMMTrainer.fit', D + 'vmfcacgmm::VMFCACGMMTrainer.fit', D + 'gcacgmm::GCACGMM.predict', D + 'vmfcacgmm::VMFCACGMM.predict'])
    run.floor('reshapes of the integration models with resolved axis order', _n, 4)
    run.floor('recognised orientation instances', ck.resolved + n, 25)
