"""C06 - leading (frequency / batch) axes are independent problems (structural parts).

  R-ELL a  in every distribution model / trainer and mixture trainer documented with `...`: axis arguments of
           axis-consuming calls on arrays that carry the leading axes count from the right (negative literals);
           axis-less reductions only in the listed scalar / assertion idioms.
  R-ELL b  flatten / restore typestate: a value computed from reshape(-1, ...)-flattened data must pass a reshape to a
           shape derived from the original `.shape` before it is stored in a field or returned.
  R-ELL c  loops over a flattened / enumerated leading axis are index-local (read the i-th slice, write the i-th slice).
  R-ELL d  numpy constructors receive their shape as ONE argument (no star expansion into np.ones / zeros / empty).
  R-EIN a  an einsum operand that is a stored field gets at most as many core letters as its documented core rank.
"""
import ast

from ..model import AnalysisError, parse_shape_text
from ..terms import T, walk_terms
from ..walk import (data_derives, data_terms, ret_alts, call_parts, call_arg, is_call_to, const_val, NOVAL, strip_views, unwrap_gamma, axis_uses,
                    norm_stmt, same_value)
from .. import ein

D = 'pb_bss.distribution.'
# fixed-layout code (documented (F, K, T) / asserted ndim == 3): not `...`-polymorphic by contract
FIXED_LAYOUT_MODULES = {D + 'gcacgmm', D + 'vmfcacgmm'}
FIXED_LAYOUT_FUNCS = {D + 'mixture_model_utils::log_pdf_to_affiliation_for_integration_models_with_inline_pa', D + 'mixture_model_utils::apply_inline_permutation_alignment',
                      D + 'cacgmm::sample_cacgmm', D + 'utils::_frequency_norm'}
SCOPE_MODULES = [D + m for m in ('gaussian', 'gmm', 'complex_angular_central_gaussian', 'cacgmm', 'complex_watson', 'cwmm', 'complex_bingham', 'cbmm', 'von_mises_fisher',
                                 'vmfmm', 'complex_circular_symmetric_gaussian', 'utils', 'mixture_model_utils')] + ['pb_bss.utils']
# axis-less reductions that are correct for any number of leading axes
AXISLESS_OK = {
    (D + 'cacgmm::CACGMM._log_likelihood', 'numpy.sum'): 'documented scalar total over all independent problems',
}
EXTRA_GUARD_SCOPE = ()
NONNEG_AXIS_OK = {
    ('pb_bss.utils::labels_to_one_hot', 'numpy.moveaxis'): 'axis is a normalised parameter',
    ('pb_bss.utils::reshape', 'numpy.squeeze'): 'explicit operation string',
}


def scope(A):
    out = []
    for mn in SCOPE_MODULES:
        m = A.prog.mods.get(mn)
        if m is None:
            raise AnalysisError(f'module {mn} vanished')
        fs = list(m.funcs.values()) + [f for c in m.classes.values() for f in c.methods.values()]
        for f in fs:
            if f.qual in FIXED_LAYOUT_FUNCS:
                continue
            if f.name.startswith('log_norm_') and f.name != 'log_norm_1f1':
                continue      # alternative normaliser approximations, not used by log_pdf
            if f.name in ('find_eigenvalues_v2', 'find_eigenvalues_sympy', 'grad_log_norm', 'grad_log_norm_symbolic', 'eigenvalues_symbol', '_doctest_grad_log_norm_symbolic',
                          'deprecated', '_normalize', '_only_reshape', 'reshape', 'get_stft_center_frequencies', 'sample', 'stack_parameters', 'get_trainer_class_from_model',
                          'parameter_from_dict', 'to_dict', 'from_dict', '__getattr__', '_phase_norm'):
                continue
            out.append(f)
    return out


def check_axes(run, A):
    n = 0
    for fn in scope(A):
        g = A.graphs.get(fn)
        short = fn.qual.split('::')[1]
        for t, opnd, ax, cname, e in axis_uses(g):
            if opnd is not None and not any(x.op in ('param', 'free') for x in data_terms(opnd)) and not any(x.op == 'attr' and x.args[0].op == 'param' for x in data_terms(opnd)):
                continue          # shape arithmetic / constants
            if any(c.op == 'nondet' and c.args[0] == 'comprehension' for c, _ in e.guards):
                pass
            if ax is None:
                if cname in ('numpy.expand_dims', 'numpy.squeeze', 'numpy.concatenate', 'numpy.stack', 'numpy.split', 'numpy.trace', 'numpy.moveaxis', 'numpy.rollaxis', 'numpy.swapaxes',
                             'method:squeeze', 'method:swapaxes', 'numpy.repeat', 'numpy.append', 'numpy.delete', 'numpy.diff', 'numpy.flip', 'numpy.sort', 'numpy.argsort',
                             'numpy.take_along_axis', 'numpy.cumsum', 'numpy.cumprod', 'numpy.percentile'):
                    continue
                if cname in ('numpy.all', 'numpy.any', 'method:all', 'method:any'):
                    # a test over everything is fine in an assertion or in front of a `raise`; as the condition of a branch that computes
                    # values it couples the slices: a degenerate slice is treated differently depending on what its neighbours contain
                    guarded = [e2 for e2 in g.events if any(any(x is t for x in walk_terms(c, into_mu=False)) for c, _ in e2.guards)]
                    raising = {e2.guards for e2 in guarded if e2.kind == 'raise'}
                    value_guard = [e2 for e2 in guarded if e2.kind not in ('raise', 'assert') and not any(e2.guards[:len(gs)] == gs for gs in raising)]
                    in_gamma = any(x.op == 'gamma' and any(y is t for y in walk_terms(x.args[0], into_mu=False))
                                   for r_ in [g.ret] + [e2.term for e2 in g.events if e2.term is not None and e2.kind != 'assert'] for x in walk_terms(r_, into_mu=False))
                    if value_guard or (in_gamma and not raising):
                        n += 1
                        run.violation('R-ELL', f'{short}: {cname.split(".")[-1].split(":")[-1]}() over everything decides a value', fn.loc(t.node),
                                      f'`{norm_stmt(t.node)}` reduces over all axes and selects what is computed: a slice of a stack is then handled according to the content of the '
                                      f'other slices', construct=f'R-ELL::{fn.qual}::axisless-guard::{cname}')
                    continue      # assertions / guards in front of a raise
                n += 1
                from ..walk import canon as _canon
                if (fn.qual, _canon(cname)) in AXISLESS_OK:
                    run.ok('R-ELL', f'{short}: {cname.split(".")[-1]}() over everything [listed]', fn.loc(t.node), AXISLESS_OK[(fn.qual, _canon(cname))])
                    continue
                if cname in ('numpy.linalg.norm',):
                    run.violation('R-ELL', f'{short}: norm without axis', fn.loc(t.node), f'`{norm_stmt(t.node)}` mixes all leading indices', construct=f'R-ELL::{fn.qual}::axisless::{cname}')
                    continue
                run.violation('R-ELL', f'{short}: {cname.split(".")[-1].split(":")[-1]}() without axis', fn.loc(t.node),
                              f'`{norm_stmt(t.node)}` reduces over all axes: slices along the leading axes are no longer independent', construct=f'R-ELL::{fn.qual}::axisless::{cname}')
                continue
            v = const_val(ax)
            if v is NOVAL:
                from ..walk import foreign_rank_axis
                fr = foreign_rank_axis(ax, opnd)
                if fr is not None:
                    n += 1
                    nm_ = cname.split(".")[-1].split(":")[-1]
                    if fr[0] == 'foreign':
                        run.violation('R-ELL', f'{short}: {nm_}(axis=<rank of another array>) counts from the right', fn.loc(t.node),
                                      f'`{norm_stmt(t.node)[:110]}`: the axis is computed from the rank of `{norm_stmt(fr[1].node)[:40]}`, an array the operand is not derived from: it names '
                                      f'the intended axis only while both happen to have the usual number of leading axes', construct=f'R-ELL::{fn.qual}::axis-foreign-rank::{cname}')
                    else:
                        run.unresolved('R-ELL', f'{short}: {nm_}(axis=<computed from a rank>) counts from the right', fn.loc(t.node),
                                       f'`{norm_stmt(t.node)[:110]}`: the axis is computed from the rank of one of several arrays the operand combines (broadcasting): '
                                       f'whether it is the intended axis for every admissible rank is not decided')
                continue
            vals = v if isinstance(v, tuple) else (v,)
            if not all(isinstance(x, int) and not isinstance(x, bool) for x in vals):
                continue
            n += 1
            from ..walk import named_front_axes
            named = named_front_axes(opnd) if opnd is not None else 0
            bad = [x for x in vals if x >= named]          # (an axis in front that the function itself built means the same for every input rank)
            if bad and (fn.qual, cname) in NONNEG_AXIS_OK:
                run.ok('R-ELL', f'{short}: {cname}(axis={v}) [listed]', fn.loc(t.node), NONNEG_AXIS_OK[(fn.qual, cname)])
                continue
            run.check(not bad, 'R-ELL', f'{short}: {cname.split(".")[-1].split(":")[-1]}(axis={v}) counts from the right', fn.loc(t.node), '',
                      f'`{norm_stmt(t.node)}`: a non-negative axis addresses a leading (independent) axis as soon as one is present', construct=f'R-ELL::{fn.qual}::axis::{cname}')
    # whole-array predicates (np.allclose / np.array_equal / np.array_equiv) are reductions over everything too: as the condition of a branch, an early `break` or
    # `continue` that decides what is computed they couple the slices (e.g. an EM loop that stops when the posteriors of the WHOLE stack have settled)
    for fn in scope(A) + [f for q_ in EXTRA_GUARD_SCOPE for f in [A.prog.func(q_)]]:
        g = A.graphs.get(fn)
        short = fn.qual.split('::')[1]
        for e in g.events:
            if e.kind != 'call' or not is_call_to(e.term, 'numpy.allclose', 'numpy.array_equal', 'numpy.array_equiv'):
                continue
            t = e.term
            if not any(x.op in ('param', 'free', 'mu') for a_ in call_parts(t)[1] for x in data_terms(a_)):
                continue
            n += 1
            guarded = [e2 for e2 in g.events if any(any(x is t for x in walk_terms(c, into_mu=False)) for c, _ in e2.guards)]
            value_guard = [e2 for e2 in guarded if e2.kind not in ('raise', 'assert') and not (e2.kind == 'call' and is_call_to(e2.term, 'builtin.ValueError', 'builtin.AssertionError'))]
            raising = [e2 for e2 in guarded if e2.kind == 'raise']
            if value_guard and not (raising and len(raising) == len([e2 for e2 in guarded if e2.kind in ('raise',)]) and all(e2.kind in ('raise', 'call') for e2 in guarded)):
                run.violation('R-ELL', f'{short}: {call_parts(t)[0].split(".")[-1]}() over everything decides a value', fn.loc(t.node),
                              f'`{norm_stmt(t.node)[:90]}` compares whole arrays and selects what is computed (branch / early exit): a slice of a stack is then handled according to '
                              f'the content of the other slices', construct=f'R-ELL::{fn.qual}::axisless-guard::{call_parts(t)[0]}')
    run.floor('literal-axis / axis-less reductions examined', n, 25)
    # the same for axis LENGTHS: x.shape[k] with k >= 0 (or the leading names of `K, *rest = x.shape`) reads a leading, independent axis as soon as one is present
    from ..walk import shape_dim
    m = 0
    from ..terms import known_funcs

    def flattened(x):
        # a working array whose leading axes were merged on purpose: np.reshape(a, (-1, ...)) / a.reshape(-1, ...)
        x = strip_views(x)
        if is_call_to(x, 'numpy.reshape'):
            shp = call_parts(x)[1][1:]
            if len(shp) == 1 and shp[0].op in ('tuple', 'list') and shp[0].args[0]:
                shp = shp[0].args[0]
            elif len(shp) == 1 and shp[0].op == 'binop' and shp[0].args[0] == 'Add' and strip_views(shp[0].args[1]).op == 'tuple' and strip_views(shp[0].args[1]).args[0]:
                shp = strip_views(shp[0].args[1]).args[0]          # (-1,) + shape[-2:]
            return bool(shp) and const_val(shp[0]) == -1
        return False
    for fn in scope(A):
        if fn.qual not in known_funcs():
            continue          # helpers a later change introduced are analysed in place, in the graphs of their callers
        g = A.graphs.get(fn)
        short = fn.qual.split('::')[1]
        seen = set()
        for r_ in [g.ret] + [e.term for e in g.events if e.term is not None]:
            for t in walk_terms(r_, seen):
                if t.op == 'call':
                    continue
                sd = shape_dim(t)
                if sd is not None and sd[1] >= 0 and flattened(sd[0]):
                    m += 1
                    continue
                if sd is None or not any(x.op in ('param', 'free') or (x.op == 'attr' and x.args[0].op == 'param') for x in data_terms(sd[0])):
                    continue
                m += 1
                if sd[1] < 0:
                    continue
                run.violation('R-ELL', f'{short}: axis length read from the left', fn.loc(t.node),
                              f'`{norm_stmt(t.node)[:80]}`: position {sd[1]} counted from the left is a leading (independent) axis as soon as one is present; the core axes are the last ones',
                              construct=f'R-ELL::{fn.qual}::shape-from-left')
    run.floor('axis lengths read from data arrays', m, 52)


def flatten_terms(g):
    """reshape(X, (-1, ...)) / X.reshape(-1, ...) / X.ravel() / X.flatten() inside a function: [(term, X)]"""
    out = []
    for e in g.events:
        if e.kind != 'call':
            continue
        t = e.term
        n, pos, kw = call_parts(t)
        if n in ('numpy.reshape', 'method:reshape') and len(pos) >= 2:
            shp = pos[1]
            first = None
            s2 = strip_views(shp)
            if s2.op in ('tuple', 'list') and s2.args[0]:
                first = s2.args[0][0]
            elif s2.op == 'binop' and s2.args[0] == 'Add' and strip_views(s2.args[1]).op == 'tuple' and strip_views(s2.args[1]).args[0]:
                first = strip_views(s2.args[1]).args[0][0]
            elif len(pos) > 2:
                first = pos[1]
            if first is not None and const_val(first) == -1:
                out.append((t, pos[0]))
        elif n in ('method:ravel', 'method:flatten', 'numpy.ravel') and pos:
            out.append((t, pos[0]))
    return out


def is_restore(t, flats):
    """reshape(Y, S) where S derives from the .shape of one of the arrays that were flattened"""
    n, pos, kw = call_parts(t)
    if n not in ('numpy.reshape', 'method:reshape') or len(pos) < 2:
        return False
    shape_terms = list(pos[1:]) + list(kw.values())
    for s in shape_terms:
        for x in walk_terms(s, into_mu=False):
            if x.op == 'attr' and x.args[1] == 'shape':
                for _, src in flats:
                    if same_value(x.args[0], src) or x.args[0] is src:
                        return True
    return False


def reaches_unrestored(t, flat_ids, flats, seen):
    """does the value of t depend on a flattened term along a path without a restoring reshape?"""
    if not isinstance(t, T) or t.id in seen:
        return None
    seen.add(t.id)
    if t.id in flat_ids:
        return t
    if t.op == 'call' and is_restore(t, flats):
        return None
    if t.op == 'attr' and t.args[1] in ('shape', 'ndim', 'dtype', 'size'):
        return None
    for a in t.args:
        items = [a] if isinstance(a, T) else [x for x in a if isinstance(x, T)] + [y for x in a if isinstance(x, tuple) for y in x if isinstance(y, T)] if isinstance(a, tuple) else []
        for x in items:
            r = reaches_unrestored(x, flat_ids, flats, seen)
            if r is not None:
                return r
    if t.op == 'mu' and t.next is not None:
        r = reaches_unrestored(t.next, flat_ids, flats, seen)
        if r is not None:
            return r
    return None


def check_flatten_restore(run, A):
    n = 0
    from ..terms import known_funcs as _known
    for fn in scope(A):
        if fn.qual not in _known() and fn.name.startswith('_'):
            continue          # a private helper a later change introduced (it may hand the flat array AND the leading shape to its caller): analysed in place, in its callers
        g = A.graphs.get(fn)
        flats = flatten_terms(g)
        if not flats:
            continue
        short = fn.qual.split('::')[1]
        flat_ids = {t.id for t, _ in flats}
        sinks = []
        for e in g.events:
            if e.kind == 'setattr':
                sinks.append((f'self.{e.data["attr"]}', e.term, e.node))
        for r in ret_alts(g):
            r2 = strip_views(r)
            if r2.op == 'tuple':
                for i, x in enumerate(r2.args[0]):
                    sinks.append((f'return[{i}]', x, getattr(x, 'node', None)))
            else:
                sinks.append(('return', r, getattr(r, 'node', None)))
        for label, term, node in sinks:
            n += 1
            hit = reaches_unrestored(term, flat_ids, flats, set())
            run.check(hit is None, 'R-ELL', f'{short}: {label} is restored to the leading shape', fn.loc(node), '',
                      f'{label} is computed from data flattened by `{norm_stmt(hit.node) if hit is not None else ""}` and escapes without a reshape to the original leading shape '
                      f'(any leading axis breaks broadcasting / mixes slices)', construct=f'R-ELL::{fn.qual}::unrestored::{label}')
    run.floor('escaping values of flattening functions', n, 10)


def check_index_local(run, A):
    q = D + 'complex_bingham::ComplexBinghamTrainer._fit'
    fn = A.prog.func(q)
    g = A.graphs.get(fn)
    loops = [l for l in g.loops if l.kind == 'for']
    if not loops:
        raise AnalysisError('ComplexBinghamTrainer._fit: loop over independent problems not found')
    from ..walk import loop_role
    # (the loop that calls the per-problem solver - a later change may put other loops, e.g. a block-wise decomposition, in front of it)
    with_solver = [l for l in loops if any(e.kind == 'call' and call_parts(e.term)[0] and call_parts(e.term)[0].endswith('find_eigenvalues_v3') for e in l.body_events)]
    L = with_solver[0] if with_solver else loops[0]
    # one problem per leading index: np.ndindex(leading shape), or a plain / enumerate loop over the (flattened) eigenvalue sets
    it = strip_views(L.iter)
    ok = is_call_to(it, 'numpy.ndindex', 'builtin.range', 'builtin.enumerate', 'builtin.zip') or it.op in ('call', 'param', 'sub', 'mu', 'attr')
    # (a store into a table of the object - `self._memo[key] = ...` - is not a write of a result; whether such a memo hands one problem's solution to another is R-STATE below)
    selfp0 = g.params.get(g.self_name) if g.self_name else None
    def table_of_self(b):
        b = strip_views(b)
        while isinstance(b, T) and b.op in ('mu', 'store'):
            b = strip_views(b.args[0])
        if not (isinstance(b, T) and b.op == 'attr'):
            return False
        o = strip_views(b.args[0])
        while isinstance(o, T) and o.op in ('mu', 'store') and o is not selfp0:
            o = strip_views(o.args[0])
        return o is selfp0
    stores = [e for e in L.body_events if e.kind == 'store' and not table_of_self(e.term.args[0])]
    undecided = []

    def loop_index(ix):
        """the loop's own index, or the multi-index np.unravel_index(i, S) of a flat loop `for i in range(prod(S))` (one problem per i as well)"""
        ix = strip_views(ix)
        if ix.op == 'elem' and ix.extra is L:
            return True
        if is_call_to(ix, 'numpy.unravel_index') and call_arg(ix, 0, 'indices') is not None:
            i0 = strip_views(call_arg(ix, 0, 'indices'))
            if i0.op == 'elem' and i0.extra is L:
                shp = call_arg(ix, 1, 'shape')
                rng = call_parts(it)
                cnt = strip_views(rng[1][0]) if rng[0] == 'builtin.range' and len(rng[1]) == 1 else None
                while cnt is not None and is_call_to(cnt, 'builtin.int', 'operator.index') and len(call_parts(cnt)[1]) == 1:
                    cnt = strip_views(call_parts(cnt)[1][0])          # int(np.prod(shape))
                if cnt is not None and is_call_to(cnt, 'math.prod', 'numpy.prod') and shp is not None and strip_views(call_arg(cnt, 0)) is strip_views(shp):
                    return True
                undecided.append('a flat loop index unravelled with a shape that is not visibly the one whose product bounds the loop')
        return False
    reads_ok = True
    for e in L.body_events:
        if e.kind == 'call' and call_parts(e.term)[0] and call_parts(e.term)[0].endswith('find_eigenvalues_v3'):
            a = call_arg(e.term, 1) if call_parts(e.term)[0].startswith('method:') else call_arg(e.term, 0)
            r = loop_role(a, L)
            a0 = strip_views(a)
            reads_ok = (r is not None and r[0] == 'slice') or (a0.op == 'sub' and loop_index(a0.args[1]))
    w_ok = bool(stores) and all((loop_role(e.term.args[1], L) or ('',))[0] == 'index' or loop_index(e.term.args[1]) for e in stores)
    if undecided and not (ok and reads_ok and w_ok):
        run.unresolved('R-ELL', 'ComplexBinghamTrainer._fit: per-problem solver loop is index-local', fn.loc(L.node), undecided[0])
        return
    run.check(ok and reads_ok and w_ok, 'R-ELL', 'ComplexBinghamTrainer._fit: per-problem solver loop is index-local', fn.loc(L.node), '',
              f'loop over np.ndindex(leading shape): {ok}; reads the index-th eigenvalue set: {reads_ok}; writes the index-th result: {w_ok}', construct=f'R-ELL::{q}::index-local')


def check_constructors(run, A):
    n = 0
    for fn in scope(A) + [f for f in A.prog.all_funcs() if f.mod.name in FIXED_LAYOUT_MODULES]:
        g = A.graphs.get(fn)
        for e in g.events:
            if e.kind != 'call':
                continue
            name, pos, kw = call_parts(e.term)
            if name in ('numpy.ones', 'numpy.zeros', 'numpy.empty', 'numpy.full'):
                n += 1
                raw = e.term.args[1]
                star = any(isinstance(a, T) and a.op == 'star' for a in raw)
                extra_pos = len(raw) > (2 if name == 'numpy.full' else 1) and not star
                bad_dtype = False
                if extra_pos:
                    second = raw[1] if name != 'numpy.full' else raw[2]
                    s2 = strip_views(second)
                    bad_dtype = s2.op in ('unpack', 'sub') or (const_val(s2) is not NOVAL and isinstance(const_val(s2), int))
                run.check(not star and not bad_dtype, 'R-ELL', f'{fn.qual.split("::")[1]}: {name.split(".")[-1]}() receives its shape as one argument', fn.loc(e.term.node), '',
                          f'`{norm_stmt(e.term.node)}` expands a shape into positional arguments: the second dimension lands in the dtype slot (TypeError as soon as a leading axis exists)',
                          construct=f'R-ELL::{fn.qual}::constructor-shape')
    run.floor('numpy constructors examined', n, 6)


def check_field_ranks(run, A):
    n = 0
    for s in ein.enumerate_sites(A):
        if not s.fn.mod.name.startswith(D) or not s.parsed or s.fn.cls is None:
            continue
        fields = A.prog.all_fields(s.fn.cls)
        for i, (b, cj, raw) in enumerate(ein.operand_info(s)):
            b2 = strip_views(b)
            if not (b2.op == 'attr' and b2.args[0].op == 'param' and b2.args[0].args[0] == 'self' and b2.args[1] in fields):
                continue
            doc = parse_shape_text(fields[b2.args[1]].get('comment') or '')
            if doc is None or not doc or doc[0] != '...':
                continue
            core = len(doc) - 1
            for sub, ins, out, ells in s.parsed:
                n += 1
                run.check(len(ins[i]) <= core, 'R-EIN', f'{s.fn.qual.split("::")[1]} {sub!r}: self.{b2.args[1]} has {core} documented core axes', s.loc, '',
                          f'{sub!r} binds {len(ins[i])} letters to self.{b2.args[1]} whose documented shape is ({", ".join(doc)}): the extra letter consumes a leading (class / batch) axis',
                          construct=f'R-EIN::{s.fn.qual}::field-rank::{b2.args[1]}')
    run.floor('einsum operands that are documented fields', n, 8)


EXTENT_CHANGERS = ('numpy.resize', 'method:resize', 'numpy.tile', 'numpy.repeat', 'numpy.reshape', 'numpy.concatenate', 'numpy.pad', 'numpy.stack')


def check_rank_dispatch(run, A):
    """a function documented for any number of leading axes computes the same thing for every rank: no branch that computes values is
    selected by `x.ndim == k` / `len(x.shape) > k` (a fast path for the un-stacked case is a second implementation that has to agree with the
    stacked one in every detail, e.g. np.cov divides by N - 1)"""
    from ..walk import cond_polarity
    n = 0
    for fn in scope(A):
        g = A.graphs.get(fn)
        seen = {}
        for e in g.events:
            if e.kind in ('assert', 'raise'):
                continue
            atoms = []
            for c, _ in e.guards:
                stack = [c]
                while stack:
                    z = stack.pop()
                    z, _p = cond_polarity(z)
                    if z.op == 'bool':
                        stack.extend(z.args[1])
                    elif z.op == 'cmp':
                        atoms.append((z, c))
            for c0, c in atoms:
                if id(c0) in seen:
                    continue
                seen[id(c0)] = True

                def is_rank(x):
                    x = strip_views(x)
                    return (x.op == 'attr' and x.args[1] == 'ndim') or (is_call_to(x, 'builtin.len') and strip_views(call_arg(x, 0)).op == 'attr' and strip_views(call_arg(x, 0)).args[1] == 'shape')
                a, b = c0.args[1], c0.args[2]
                n += 1
                if (is_rank(a) and isinstance(const_val(strip_views(b)), int)) or (is_rank(b) and isinstance(const_val(strip_views(a)), int)):
                    # a validation (`if x.ndim != 3: raise`) has a branch that only raises; a dispatch computes on both sides
                    sides = {True: [], False: []}
                    for e2 in g.events:
                        for c2, p2 in e2.guards:
                            if c2 is c:
                                sides[p2].append(e2)
                    def only_raises(evs):
                        return bool(evs) and any(x.kind == 'raise' for x in evs) and not any(x.kind in ('return', 'store', 'inplace', 'setattr') for x in evs)
                    if only_raises(sides[True]) or only_raises(sides[False]):
                        continue
                    run.violation('R-ELL', f'{fn.qual.split("::")[1]}: the computation is selected by the rank of the input', fn.loc(c0.node),
                                  f'`{norm_stmt(c0.node)}` chooses a different code path for un-stacked input: a slice processed alone and the same slice inside a stack go through '
                                  f'different implementations', construct=f'R-ELL::{fn.qual}::rank-dispatch')
    run.count('branch conditions examined for rank dispatch', n)


def check_initial_expansion(run, A):
    """an initial affiliation with singleton leading axes behaves as if repeated: on its way into the first M-step the given
    initialisation is used as it is or expanded with np.broadcast_to - nothing else changes its extent (np.resize / np.tile /
    reshape repeat the flattened data cyclically and hand slice [i, j] the start values of another slice)"""
    from .. import loop as LP
    from ..walk import data_derives
    n = 0
    for cname in LP.TRAINERS:
        L = LP.recognise(A, cname)
        aff = LP.m_step_arg(L, name='affiliation')
        if aff is None:
            raise AnalysisError(f'{L.fn.qual}: affiliation argument of the M-step not found')
        for leaf in LP.value_sources(aff):
            x = strip_views(leaf)
            if not data_derives(x, 'initialization'):
                continue
            n += 1
            bad = [y for y in walk_terms(x, into_mu=False) if is_call_to(y, *EXTENT_CHANGERS) and data_derives(call_arg(y, 0), 'initialization')]
            run.check(not bad, 'R-BCAST', f'{cname}Trainer: the given initialisation reaches the first M-step unchanged or broadcast', L.fn.loc(getattr(x, 'node', None)), '',
                      f'`{norm_stmt(bad[0].node) if bad else ""}` changes the extent of the start affiliation by something else than np.broadcast_to (np.resize / np.tile / reshape fill '
                      f'cyclically in C order: with a non-singleton leading axis followed by a singleton one, slices start from another slice\'s initialisation)',
                      construct=f'R-BCAST::{L.fn.qual}::initial-expansion')
    run.floor('initial-affiliation sources of the 7 mixture trainers', n, 7)


def check(run):
    A = run.A
    from ..opt import check_axisless_squeeze, check_layout_dependent_flatten
    check_axisless_squeeze(run, A, ('pb_bss.distribution.',))
    check_layout_dependent_flatten(run, A, ('pb_bss.distribution.', 'pb_bss.utils'))
    check_initial_expansion(run, A)
    check_rank_dispatch(run, A)
    # a slice of a stack fitted alone and inside the stack sees the same observations: a block-wise loop covers its axis whatever the size of the stack
    from ..opt import check_block_partitions
    check_block_partitions(run, A, ('pb_bss.distribution.',))
    run.explanation = (
        'Leading-axes polymorphism decided structurally for every distribution model / trainer and mixture trainer documented with `...`: literal axes count from the right and '
        'axis-less reductions occur only in listed scalar idioms; every value that escapes (stored field / return value) from a function that flattens leading axes with reshape(-1, ...) '
        'passes a reshape derived from the original shape; the per-problem Bingham solver loop is index-local; numpy constructors receive one shape argument; einsum operands that are stored '
        'fields get no more core letters than their documented core rank. Numeric equality of slices is not decided.')
    run.trusted = ['field shape comments and docstring shapes with a leading `...`', 'fixed-layout (F, K, T) integration models are excluded by their own contract']
    check_axes(run, A)
    check_flatten_restore(run, A)
    check_index_local(run, A)
    # a memo table of the trainer that is filled and read inside the per-problem loop hands the solution of one leading index to another unless the stored value is a function of the key
    from . import c20 as _c20
    _c20.check_instance_tables(run, A, ('pb_bss.distribution.complex_bingham',))
    _c20.check_broadcast_writes(run, A, ('pb_bss.distribution.', 'pb_bss.extraction.', 'pb_bss.permutation_alignment'))
    check_constructors(run, A)
    check_field_ranks(run, A)
