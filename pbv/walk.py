"""Helpers over evaluated contexts: call-tree traversal, public entry enumeration, term patterns."""
import ast

from .model import Func, Cls, Lib
from .terms import T, walk_terms
from .absint import AV, TOP

SCOPE_MODULES_C20 = (
    'pb_bss.distribution.', 'pb_bss.extraction.beamformer', 'pb_bss.extraction.mask_module', 'pb_bss.permutation_alignment',
    'pb_bss.evaluation.sxr_module', 'pb_bss.evaluation.module_si_sdr', 'pb_bss.initializer.', 'pb_bss.math.solve', 'pb_bss.utils',
    'pb_bss.extraction.beamform_utils',
)


def ctx_tree(ctx, seen=None):
    """ctx and all contexts reached through its calls (each once)"""
    seen = seen if seen is not None else set()
    stack = [ctx]
    while stack:
        c = stack.pop()
        if c.id in seen:
            continue
        seen.add(c.id)
        yield c
        for ch in c.children:
            stack.append(ch)


def call_paths(ctx, pred, path=None, seen=None, limit=200):
    """yield (callfact, path of function quals) for calls satisfying pred, depth-first from ctx"""
    path = (path or []) + [ctx.fn.qual]
    seen = seen if seen is not None else set()
    if ctx.id in seen or len(seen) > 5000:
        return
    seen.add(ctx.id)
    for cf in ctx.callfacts:
        if pred(cf):
            yield cf, path
        if cf.child is not None:
            yield from call_paths(cf.child, pred, path, seen, limit)


def callee_func(cf):
    c = cf.callee
    if isinstance(c, Func):
        return c
    if isinstance(c, tuple) and c and c[0] in ('bound', 'unbound', 'closure'):
        return c[1]
    return None


def callee_name(cf):
    c = cf.callee
    f = callee_func(cf)
    if f is not None:
        return f.qual
    if isinstance(c, Cls):
        return c.qual
    if isinstance(c, Lib):
        return c.dotted
    if isinstance(c, tuple):
        if c[0] == 'builtin':
            return 'builtin.' + c[1]
        if c[0] == 'ndmethod':
            return 'ndarray.' + c[1]
        if c[0] == 'strmethod':
            return 'str.' + c[1]
        if c[0] == 'unresolved':
            return 'unresolved:' + c[1]
    return repr(c)


def arg_of(cf, name=None, pos=None):
    """abstract argument of a call fact by parameter name (repo callee) or position / keyword"""
    if name is not None and name in (cf.args or {}):
        return cf.args[name]
    if name is not None and name in (cf.kwargs or {}):
        return cf.kwargs[name]
    if pos is not None and pos < len(cf.posargs):
        return cf.posargs[pos]
    return None


def public_callables(prog, prefixes, include_private=False):
    out = []
    for m in prog.mods.values():
        if not any(m.name == p.rstrip('.') or m.name.startswith(p) for p in prefixes):
            continue
        for f in m.funcs.values():
            if include_private or not f.name.startswith('_'):
                out.append(f)
        for c in m.classes.values():
            for f in c.methods.values():
                if include_private or not f.name.startswith('_') or f.name in ('__call__', '__post_init__', '__init__'):
                    out.append(f)
    return out


def norm_stmt(node):
    """normalised statement text (keys findings independent of line numbers / formatting)"""
    try:
        return ' '.join(ast.unparse(node).split())[:160]
    except Exception:
        return type(node).__name__


def find_calls(graph, pred):
    """call events of a function graph whose callee term satisfies pred(term)"""
    return [e for e in graph.events if e.kind == 'call' and pred(e.term)]


def lib_name(t):
    """dotted library name of a call term's callee (static, without evaluation) or None"""
    if isinstance(t, T) and t.op == 'call':
        f = t.args[0]
        if f.op == 'ref' and isinstance(f.args[0], Lib):
            return f.args[0].dotted
    return None


def ref_target(t):
    if isinstance(t, T) and t.op == 'ref':
        return t.args[0]
    return None


def strip_views(t):
    """peel shape-only / copy wrappers from a term (for 'derives from the same tensor' tests)"""
    while isinstance(t, T):
        if t.op == 'call':
            ln = lib_name(t)
            f = t.args[0]
            if ln in ('numpy.asarray', 'numpy.ascontiguousarray', 'numpy.array', 'numpy.copy', 'numpy.asanyarray') and t.args[1]:
                t = t.args[1][0]
                continue
            if f.op == 'attr' and f.args[1] in ('copy', 'astype', 'view'):
                t = f.args[0]
                continue
        if t.op == 'refine':
            t = t.args[0]
            continue
        if t.op == 'gamma':
            a, b = strip_views(t.args[1]), strip_views(t.args[2])
            if a is b:
                t = a
                continue
        if t.op == 'unpack' and t.args[3] is None and isinstance(t.args[0], T) and t.args[0].op in ('tuple', 'list') \
                and len(t.args[0].args[0]) == t.args[2] and not any(isinstance(x, T) and x.op == 'star' for x in t.args[0].args[0]):
            # a, b = x, y : the i-th target is the i-th element
            t = t.args[0].args[0][t.args[1]]
            continue
        break
    return t


def is_conj(t):
    """(inner term, True) if t is X.conj() / np.conj(X) / X.conjugate(), else (t, False)"""
    t0 = t
    t = strip_views(t)
    if isinstance(t, T) and t.op == 'call':
        f = t.args[0]
        if f.op == 'attr' and f.args[1] in ('conj', 'conjugate') and not t.args[1]:
            return strip_views(f.args[0]), True
        if lib_name(t) in ('numpy.conj', 'numpy.conjugate') and t.args[1]:
            return strip_views(t.args[1][0]), True
    return t, False


def same_value(a, b):
    a, b = strip_views(a), strip_views(b)
    if a is b:
        return True
    if isinstance(a, T) and isinstance(b, T) and a.op == b.op:
        if a.op == 'param':
            return a.args == b.args and a.fn is b.fn
        if a.op == 'attr':
            return a.args[1] == b.args[1] and same_value(a.args[0], b.args[0])
        if a.op == 'sub':
            return same_value(a.args[0], b.args[0]) and struct_eq(a.args[1], b.args[1])
        if a.op == 'const':
            return a.args == b.args
    return False


def struct_eq(a, b):
    """structural equality of two terms (same shape, same leaves by identity or constant value)"""
    if a is b:
        return True
    if not (isinstance(a, T) and isinstance(b, T)):
        if isinstance(a, tuple) and isinstance(b, tuple) and len(a) == len(b):
            return all(struct_eq(x, y) for x, y in zip(a, b))
        return a == b
    if a.op != b.op or len(a.args) != len(b.args):
        return False
    if a.op in ('param',):
        return a.args == b.args and a.fn is b.fn
    if a.op == 'mu':
        return False
    return all(struct_eq(x, y) for x, y in zip(a.args, b.args))


NOVAL = object()


def const_val(t):
    if isinstance(t, T) and t.op == 'const':
        return t.args[0]
    if isinstance(t, T) and t.op == 'ref' and isinstance(t.args[0], Lib) and t.args[0].dotted == 'numpy.newaxis':
        return None
    if isinstance(t, T) and t.op == 'tuple' and all(isinstance(x, T) and x.op == 'const' for x in t.args[0]):
        return tuple(x.args[0] for x in t.args[0])
    return NOVAL


def call_parts(t):
    """(callee description, positional terms, keyword dict) of a call term; callee description is a dotted lib
    name, a repo qualname, 'method:<name>' (with receiver prepended to positionals) or None"""
    if not (isinstance(t, T) and t.op == 'call'):
        return None, (), {}
    f, pos, kws = t.args
    kw = {k: v for k, v in kws if k is not None}
    if f.op == 'ref':
        o = f.args[0]
        if isinstance(o, Lib):
            return o.dotted, tuple(pos), kw
        if isinstance(o, (Func, Cls)):
            return o.qual, tuple(pos), kw
        if isinstance(o, tuple) and o[0] == 'builtin':
            return 'builtin.' + o[1], tuple(pos), kw
    if f.op == 'attr':
        return 'method:' + f.args[1], (f.args[0],) + tuple(pos), kw
    return None, tuple(pos), kw


def call_arg(t, pos=None, name=None):
    _, p, kw = call_parts(t)
    if name is not None and name in kw:
        return kw[name]
    if pos is not None and pos < len(p):
        return p[pos]
    return None


# equivalent spellings of the same numpy operation (method / function form, aliases): call_parts puts the receiver first,
# so the positional layout is identical
CANON = {
    'method:sum': 'numpy.sum', 'method:mean': 'numpy.mean', 'method:max': 'numpy.amax', 'numpy.max': 'numpy.amax', 'method:min': 'numpy.amin',
    'numpy.min': 'numpy.amin', 'method:prod': 'numpy.prod', 'method:reshape': 'numpy.reshape', 'method:swapaxes': 'numpy.swapaxes',
    'method:transpose': 'numpy.transpose', 'method:squeeze': 'numpy.squeeze', 'method:argmax': 'numpy.argmax', 'method:argmin': 'numpy.argmin',
    'method:cumsum': 'numpy.cumsum', 'method:cumprod': 'numpy.cumprod', 'method:conj': 'numpy.conj', 'method:conjugate': 'numpy.conj',
    'numpy.conjugate': 'numpy.conj', 'numpy.absolute': 'numpy.abs', 'method:copy': 'numpy.copy', 'method:all': 'numpy.all', 'method:any': 'numpy.any',
    'method:clip': 'numpy.clip', 'method:trace': 'numpy.trace', 'method:ravel': 'numpy.ravel', 'numpy.fmax': 'numpy.maximum', 'numpy.fmin': 'numpy.minimum',
    'method:std': 'numpy.std', 'method:var': 'numpy.var', 'numpy.true_divide': 'numpy.divide',
}


def canon(name):
    return CANON.get(name, name)


def is_call_to(t, *names):
    n, _, _ = call_parts(t)
    if n is None:
        return False
    return canon(n) in {canon(x) for x in names}


REDUCERS = {'numpy.sum': 1, 'numpy.mean': 1, 'numpy.amax': 1, 'numpy.max': 1, 'numpy.amin': 1, 'numpy.min': 1, 'numpy.prod': 1,
            'numpy.linalg.norm': 2, 'numpy.argmax': 1, 'numpy.argmin': 1, 'numpy.cumsum': 1, 'numpy.cumprod': 1, 'numpy.all': 1, 'numpy.any': 1,
            'scipy.special.logsumexp': 1, 'numpy.median': 1, 'numpy.percentile': 2, 'numpy.std': 1, 'numpy.var': 1, 'numpy.nansum': 1,
            'numpy.trace': None, 'numpy.expand_dims': 1, 'numpy.squeeze': 1, 'numpy.concatenate': 1, 'numpy.stack': 1, 'numpy.repeat': 2,
            'numpy.take_along_axis': 2, 'numpy.argsort': 1, 'numpy.sort': 1, 'numpy.diff': 2, 'numpy.flip': 1, 'numpy.delete': 2,
            'numpy.append': 2, 'numpy.split': 2, 'numpy.rollaxis': 1, 'numpy.moveaxis': 1, 'numpy.swapaxes': 1}
METHOD_REDUCERS = {'sum': 1, 'mean': 1, 'max': 1, 'min': 1, 'prod': 1, 'argmax': 1, 'argmin': 1, 'cumsum': 1, 'cumprod': 1, 'all': 1, 'any': 1,
                   'std': 1, 'var': 1, 'squeeze': 1, 'swapaxes': 1}


def axis_uses(graph):
    """every call in a function graph that consumes an axis argument: (call term, operand term, axis term|None, name)"""
    out = []
    for e in graph.events:
        if e.kind != 'call':
            continue
        t = e.term
        name, pos, kw = call_parts(t)
        if name in REDUCERS:
            ax = kw.get('axis')
            pi = REDUCERS[name]
            if ax is None and pi is not None and pi < len(pos):
                ax = pos[pi]
            out.append((t, pos[0] if pos else None, ax, name, e))
        elif name and name.startswith('method:') and name[7:] in METHOD_REDUCERS:
            ax = kw.get('axis')
            pi = METHOD_REDUCERS[name[7:]]
            if ax is None and pi < len(pos):
                ax = pos[pi]
            out.append((t, pos[0], ax, name, e))
    return out


def unwrap_gamma(t):
    """all alternatives of a gamma tree (leaves)"""
    out, stack = [], [t]
    while stack:
        x = stack.pop()
        if isinstance(x, T) and x.op == 'gamma':
            stack.append(x.args[1])
            stack.append(x.args[2])
        elif isinstance(x, T) and x.op == 'refine':
            stack.append(x.args[0])
        else:
            out.append(x)
    return out


def mult_factors(t):
    """factors of a (possibly in-place, possibly conditional) product chain: x * a * b -> [x, a, b];
    conditional factors (applied under a gamma) are returned with their condition"""
    out = []

    def rec(x, cond):
        if isinstance(x, T) and x.op in ('binop', 'iop') and x.args[0] == 'Mult':
            rec(x.args[1], cond)
            rec(x.args[2], cond)
        elif isinstance(x, T) and x.op == 'gamma':
            a, b = x.args[1], x.args[2]
            # gamma(c ? base*f : base): f is a conditional factor of the same base
            fa, fb = [], []
            rec2(a, fa)
            rec2(b, fb)
            ida, idb = {id(y) for y in fa}, {id(y) for y in fb}
            common = [y for y in fa if id(y) in idb]
            if common:
                for y in common:
                    out.append((y, cond))
                for y in fa:
                    if id(y) not in idb:
                        out.append((y, (x.args[0], True)))
                for y in fb:
                    if id(y) not in ida:
                        out.append((y, (x.args[0], False)))
            else:
                out.append((x, cond))
        else:
            out.append((x, cond))

    def rec2(x, acc):
        if isinstance(x, T) and x.op in ('binop', 'iop') and x.args[0] == 'Mult':
            rec2(x.args[1], acc)
            rec2(x.args[2], acc)
        else:
            acc.append(x)

    rec(t, None)
    return out


SHAPE_ATTRS = ('shape', 'ndim', 'dtype', 'size')


def data_terms(t, seen=None, into_mu=True):
    """like walk_terms but does not descend into shape-only uses (x.shape, x.ndim, x.dtype, len(x))"""
    seen = seen if seen is not None else set()
    stack = [t]
    while stack:
        x = stack.pop()
        if not isinstance(x, T) or x.id in seen:
            continue
        seen.add(x.id)
        if x.op == 'attr' and x.args[1] in SHAPE_ATTRS:
            continue
        if x.op == 'call' and x.args[0].op == 'ref' and x.args[0].args[0] == ('builtin', 'len'):
            continue
        if x.op == 'unpack' and x.args[3] is None and isinstance(x.args[0], T) and x.args[0].op in ('tuple', 'list') \
                and len(x.args[0].args[0]) == x.args[2] and not any(isinstance(y, T) and y.op == 'star' for y in x.args[0].args[0]):
            stack.append(x.args[0].args[0][x.args[1]])
            continue
        yield x
        for a in x.args:
            if isinstance(a, T):
                stack.append(a)
            elif isinstance(a, tuple):
                for y in a:
                    if isinstance(y, T):
                        stack.append(y)
                    elif isinstance(y, tuple):
                        stack.extend(z for z in y if isinstance(z, T))
        if x.op == 'mu' and into_mu and x.next is not None:
            stack.append(x.next)


def data_derives(t, pname):
    """does the *value* of t depend on parameter pname (shape-only uses do not count)?"""
    return t is not None and any(x.op == 'param' and x.args[0] == pname for x in data_terms(t))


def ret_alts(graph):
    """distinct non-raising return alternatives of a function graph"""
    out, seen = [], set()
    for x in unwrap_gamma(graph.ret):
        if isinstance(x, T) and x.op == 'raise':
            continue
        if id(x) in seen:
            continue
        seen.add(id(x))
        out.append(x)
    return out


def struct_eq_modulo(a, b, pairs, depth=0):
    """structural equality of two terms where the designated pairs of leaves (x in a, y in b) count as equal"""
    if a is b:
        return True
    if depth > 60:
        return False
    if isinstance(a, T) and isinstance(b, T):
        for x, y in pairs:
            if (a is x and b is y):
                return True
        a2, b2 = strip_views(a), strip_views(b)
        if a2 is not a or b2 is not b:
            return struct_eq_modulo(a2, b2, pairs, depth + 1)
        if a.op != b.op or len(a.args) != len(b.args):
            return False
        if a.op == 'param':
            return a.args == b.args and a.fn is b.fn
        if a.op in ('mu', 'elem'):
            return False
        return all(struct_eq_modulo(x, y, pairs, depth + 1) for x, y in zip(a.args, b.args))
    if isinstance(a, tuple) and isinstance(b, tuple) and len(a) == len(b):
        return all(struct_eq_modulo(x, y, pairs, depth + 1) for x, y in zip(a, b))
    return a == b
