"""Helpers over evaluated contexts: call-tree traversal, public entry enumeration, term patterns."""
import ast

from .model import Func, Cls, Lib
from .terms import T, walk_terms
from .absint import AV, TOP

SCOPE_MODULES_C20 = (
    'pb_bss.distribution.', 'pb_bss.extraction.beamformer', 'pb_bss.extraction.mask_module', 'pb_bss.permutation_alignment',
    'pb_bss.evaluation.sxr_module', 'pb_bss.evaluation.module_si_sdr', 'pb_bss.initializer.', 'pb_bss.math.solve', 'pb_bss.utils',
    'pb_bss.extraction.beamform_utils',
)


def ctx_tree(ctx, seen=None):
    """ctx and all contexts reached through its calls (each once)"""
    seen = seen if seen is not None else set()
    stack = [ctx]
    while stack:
        c = stack.pop()
        if c.id in seen:
            continue
        seen.add(c.id)
        yield c
        for ch in c.children:
            stack.append(ch)


def call_paths(ctx, pred, path=None, seen=None, limit=200):
    """yield (callfact, path of function quals) for calls satisfying pred, depth-first from ctx"""
    path = (path or []) + [ctx.fn.qual]
    seen = seen if seen is not None else set()
    if ctx.id in seen or len(seen) > 5000:
        return
    seen.add(ctx.id)
    for cf in ctx.callfacts:
        if pred(cf):
            yield cf, path
        if cf.child is not None:
            yield from call_paths(cf.child, pred, path, seen, limit)


def callee_func(cf):
    c = cf.callee
    if isinstance(c, Func):
        return c
    if isinstance(c, tuple) and c and c[0] in ('bound', 'unbound', 'closure'):
        return c[1]
    return None


def callee_name(cf):
    c = cf.callee
    f = callee_func(cf)
    if f is not None:
        return f.qual
    if isinstance(c, Cls):
        return c.qual
    if isinstance(c, Lib):
        return c.dotted
    if isinstance(c, tuple):
        if c[0] == 'builtin':
            return 'builtin.' + c[1]
        if c[0] == 'ndmethod':
            return 'ndarray.' + c[1]
        if c[0] == 'strmethod':
            return 'str.' + c[1]
        if c[0] == 'unresolved':
            return 'unresolved:' + c[1]
    return repr(c)


def arg_of(cf, name=None, pos=None):
    """abstract argument of a call fact by parameter name (repo callee) or position / keyword"""
    if name is not None and name in (cf.args or {}):
        return cf.args[name]
    if name is not None and name in (cf.kwargs or {}):
        return cf.kwargs[name]
    if pos is not None and pos < len(cf.posargs):
        return cf.posargs[pos]
    return None


def public_callables(prog, prefixes, include_private=False):
    out = []
    for m in prog.mods.values():
        if not any(m.name == p.rstrip('.') or m.name.startswith(p) for p in prefixes):
            continue
        for f in m.funcs.values():
            if include_private or not f.name.startswith('_'):
                out.append(f)
        for c in m.classes.values():
            for f in c.methods.values():
                if include_private or not f.name.startswith('_') or f.name in ('__call__', '__post_init__', '__init__'):
                    out.append(f)
    return out


def norm_stmt(node):
    """normalised statement text (keys findings independent of line numbers / formatting)"""
    try:
        return ' '.join(ast.unparse(node).split())[:160]
    except Exception:
        return type(node).__name__


def find_calls(graph, pred):
    """call events of a function graph whose callee term satisfies pred(term)"""
    return [e for e in graph.events if e.kind == 'call' and pred(e.term)]


def lib_name(t):
    """dotted library name of a call term's callee (static, without evaluation) or None"""
    if isinstance(t, T) and t.op == 'call':
        f = t.args[0]
        if f.op == 'ref' and isinstance(f.args[0], Lib):
            return f.args[0].dotted
    return None


def ref_target(t):
    if isinstance(t, T) and t.op == 'ref':
        return t.args[0]
    return None


def strip_views(t):
    """peel shape-only / copy wrappers from a term (for 'derives from the same tensor' tests)"""
    while isinstance(t, T):
        if t.op == 'call':
            ln = lib_name(t)
            f = t.args[0]
            if ln in ('numpy.asarray', 'numpy.ascontiguousarray', 'numpy.array', 'numpy.copy', 'numpy.asanyarray', 'pbv.memoised') and t.args[1]:
                t = t.args[1][0]
                continue
            if f.op == 'attr' and f.args[1] in ('copy', 'astype', 'view'):
                t = f.args[0]
                continue
        if t.op == 'refine':
            t = t.args[0]
            continue
        if t.op == 'mu' and _never_rebound(t):
            t = t.args[0]           # carried through a loop without ever being rebound: the value it had before the loop
            continue
        if t.op == 'gamma':
            a, b = strip_views(t.args[1]), strip_views(t.args[2])
            if a is b:
                t = a
                continue
            # `np.divide(r, n, out=r) if <dtypes agree> else r / n`: the same value, once written into the buffer of the left operand
            if isinstance(a, T) and isinstance(b, T) and {a.op, b.op} == {'iop', 'binop'} and a.args[0] == b.args[0] and len(a.args) == 3 and len(b.args) == 3 \
                    and all(strip_views(x) is strip_views(y) or struct_eq(x, y) for x, y in zip(a.args[1:], b.args[1:])):
                t = a if a.op == 'binop' else b
                continue
        if t.op == 'unpack' and t.args[3] is None and isinstance(t.args[0], T) and t.args[0].op in ('tuple', 'list') \
                and len(t.args[0].args[0]) == t.args[2] and not any(isinstance(x, T) and x.op == 'star' for x in t.args[0].args[0]):
            # a, b = x, y : the i-th target is the i-th element
            t = t.args[0].args[0][t.args[1]]
            continue
        break
    return t


def _never_rebound(mu):
    """the loop-carried value comes back unchanged on the back edge (directly, or through inner loops that do not rebind it either)"""
    nx = getattr(mu, 'next', None)
    for _ in range(6):
        if nx is mu:
            return True
        if isinstance(nx, T) and nx.op == 'mu' and nx is not mu and getattr(nx, 'next', None) is nx:
            nx = nx.args[0]         # an inner loop carried it without rebinding
            continue
        if isinstance(nx, T) and nx.op == 'refine':
            nx = nx.args[0]
            continue
        return False
    return False


def is_conj(t):
    """(inner term, True) if t is X.conj() / np.conj(X) / X.conjugate(), else (t, False)"""
    t0 = t
    t = strip_views(t)
    if isinstance(t, T) and t.op == 'call':
        f = t.args[0]
        if f.op == 'attr' and f.args[1] in ('conj', 'conjugate') and not t.args[1]:
            return strip_views(f.args[0]), True
        if lib_name(t) in ('numpy.conj', 'numpy.conjugate') and t.args[1]:
            return strip_views(t.args[1][0]), True
    return t, False


def same_value(a, b):
    a, b = strip_views(a), strip_views(b)
    if a is b:
        return True
    if isinstance(a, T) and isinstance(b, T) and a.op == b.op:
        if a.op == 'param':
            return a.args == b.args and a.fn is b.fn
        if a.op == 'attr':
            return a.args[1] == b.args[1] and same_value(a.args[0], b.args[0])
        if a.op == 'sub':
            return same_value(a.args[0], b.args[0]) and struct_eq(a.args[1], b.args[1])
        if a.op == 'const':
            return a.args == b.args
    return False


def struct_eq(a, b):
    """structural equality of two terms (same shape, same leaves by identity or constant value)"""
    if a is b:
        return True
    if not (isinstance(a, T) and isinstance(b, T)):
        if isinstance(a, tuple) and isinstance(b, tuple) and len(a) == len(b):
            return all(struct_eq(x, y) for x, y in zip(a, b))
        return a == b
    if a.op != b.op or len(a.args) != len(b.args):
        return False
    if a.op in ('param',):
        return a.args == b.args and a.fn is b.fn
    if a.op == 'mu':
        return False
    if a.op in ('binop',) and a.args[0] in COMMUTATIVE and a.args[0] == b.args[0]:
        return (struct_eq(a.args[1], b.args[1]) and struct_eq(a.args[2], b.args[2])) or (struct_eq(a.args[1], b.args[2]) and struct_eq(a.args[2], b.args[1]))
    return all(struct_eq(x, y) for x, y in zip(a.args, b.args))


NOVAL = object()
COMMUTATIVE = ('Add', 'Mult', 'BitAnd', 'BitOr', 'BitXor')


def const_val(t):
    if isinstance(t, T) and t.op == 'const':
        return t.args[0]
    if isinstance(t, T) and t.op == 'ref' and isinstance(t.args[0], Lib) and t.args[0].dotted == 'numpy.newaxis':
        return None
    if isinstance(t, T) and t.op == 'tuple' and all(isinstance(x, T) and x.op == 'const' for x in t.args[0]):
        return tuple(x.args[0] for x in t.args[0])
    return NOVAL


def possible_consts(t, depth=0):
    """the finite set of constants a term can evaluate to (const, conditional of consts, the element of a loop over a literal
    tuple / list, a component of such an element), or None when it is not such a term"""
    if not isinstance(t, T) or depth > 12:
        return None
    while t.op == 'refine':
        t = t.args[0]
    v = const_val(t)
    if v is not NOVAL:
        return {v}
    if t.op == 'gamma':
        a, b = possible_consts(t.args[1], depth + 1), possible_consts(t.args[2], depth + 1)
        return None if a is None or b is None else a | b
    if t.op == 'elem' and isinstance(t.args[0], T) and t.args[0].op in ('tuple', 'list'):
        out = set()
        for x in t.args[0].args[0]:
            r = possible_consts(x, depth + 1)
            if r is None:
                return None
            out |= r
        return out
    if t.op == 'unpack' and t.args[3] is None and isinstance(t.args[0], T):
        src = t.args[0]
        if src.op == 'elem' and isinstance(src.args[0], T) and src.args[0].op in ('tuple', 'list'):
            out = set()
            for x in src.args[0].args[0]:
                if not (isinstance(x, T) and x.op in ('tuple', 'list') and len(x.args[0]) == t.args[2]):
                    return None
                r = possible_consts(x.args[0][t.args[1]], depth + 1)
                if r is None:
                    return None
                out |= r
            return out
        if src.op in ('tuple', 'list') and len(src.args[0]) == t.args[2]:
            return possible_consts(src.args[0][t.args[1]], depth + 1)
    return None


def call_parts(t):
    """(callee description, positional terms, keyword dict) of a call term; callee description is a dotted lib
    name, a repo qualname, 'method:<name>' (with receiver prepended to positionals) or None"""
    if not (isinstance(t, T) and t.op == 'call'):
        return None, (), {}
    f, pos, kws = t.args
    kw = {k: v for k, v in kws if k is not None}
    if f.op == 'ref':
        o = f.args[0]
        if isinstance(o, Lib):
            return o.dotted, tuple(pos), kw
        if isinstance(o, (Func, Cls)):
            return o.qual, tuple(pos), kw
        if isinstance(o, tuple) and o[0] == 'builtin':
            return 'builtin.' + o[1], tuple(pos), kw
    if f.op == 'attr':
        return 'method:' + f.args[1], (f.args[0],) + tuple(pos), kw
    return None, tuple(pos), kw


# positional layout of library signatures (canonical names, see CANON): lets a rule ask for an argument by position or by
# keyword, whichever way the call site spells it.  The method form has the receiver in slot 0 and therefore the same layout,
# except for the variadic x.reshape(*shape) / x.transpose(*axes).
SIGS = {
    'numpy.sum': ('a', 'axis', 'dtype', 'out', 'keepdims', 'initial', 'where'), 'numpy.nansum': ('a', 'axis', 'dtype', 'out', 'keepdims'),
    'numpy.mean': ('a', 'axis', 'dtype', 'out', 'keepdims'), 'numpy.amax': ('a', 'axis', 'out', 'keepdims'), 'numpy.amin': ('a', 'axis', 'out', 'keepdims'),
    'numpy.nanmax': ('a', 'axis', 'out', 'keepdims'), 'numpy.prod': ('a', 'axis', 'dtype', 'out', 'keepdims'), 'numpy.linalg.norm': ('x', 'ord', 'axis', 'keepdims'),
    'numpy.clip': ('a', 'a_min', 'a_max', 'out'), 'numpy.maximum': ('x1', 'x2'), 'numpy.minimum': ('x1', 'x2'), 'numpy.squeeze': ('a', 'axis'),
    'numpy.swapaxes': ('a', 'axis1', 'axis2'), 'numpy.transpose': ('a', 'axes'), 'numpy.moveaxis': ('a', 'source', 'destination'),
    'numpy.reshape': ('a', 'newshape'), 'numpy.broadcast_to': ('array', 'shape'), 'numpy.argmax': ('a', 'axis', 'out', 'keepdims'),
    'numpy.argmin': ('a', 'axis', 'out', 'keepdims'), 'numpy.cumsum': ('a', 'axis', 'dtype', 'out'), 'numpy.cumprod': ('a', 'axis', 'dtype', 'out'),
    'numpy.repeat': ('a', 'repeats', 'axis'), 'numpy.append': ('arr', 'values', 'axis'), 'numpy.take_along_axis': ('arr', 'indices', 'axis'),
    'numpy.expand_dims': ('a', 'axis'), 'numpy.concatenate': ('arrays', 'axis'), 'numpy.stack': ('arrays', 'axis'), 'numpy.where': ('condition', 'x', 'y'),
    'numpy.all': ('a', 'axis', 'out', 'keepdims'), 'numpy.any': ('a', 'axis', 'out', 'keepdims'), 'numpy.full': ('shape', 'fill_value', 'dtype'),
    'numpy.ones': ('shape', 'dtype'), 'numpy.zeros': ('shape', 'dtype'), 'numpy.empty': ('shape', 'dtype'), 'numpy.asarray': ('a', 'dtype'),
    'numpy.array': ('object', 'dtype'), 'numpy.linalg.solve': ('a', 'b'), 'numpy.delete': ('arr', 'obj', 'axis'), 'numpy.trace': ('a', 'offset', 'axis1', 'axis2'),
    'numpy.diff': ('a', 'n', 'axis'), 'numpy.random.uniform': ('low', 'high', 'size'), 'scipy.special.logsumexp': ('a', 'axis', 'b', 'keepdims', 'return_sign'),
    'numpy.percentile': ('a', 'q', 'axis'), 'numpy.sort': ('a', 'axis'), 'numpy.argsort': ('a', 'axis'), 'numpy.copy': ('a', 'order'),
    'numpy.std': ('a', 'axis', 'dtype', 'out', 'ddof', 'keepdims'), 'numpy.var': ('a', 'axis', 'dtype', 'out', 'ddof', 'keepdims'),
    'numpy.abs': ('x',), 'numpy.exp': ('x',), 'numpy.log': ('x',), 'numpy.sqrt': ('x',), 'numpy.conj': ('x',), 'numpy.angle': ('z', 'deg'), 'numpy.cos': ('x',),
    'numpy.ones_like': ('a', 'dtype'), 'numpy.zeros_like': ('a', 'dtype'), 'numpy.ravel': ('a', 'order'), 'numpy.flip': ('m', 'axis'),
    'numpy.median': ('a', 'axis'), 'numpy.rollaxis': ('a', 'axis', 'start'), 'numpy.split': ('ary', 'indices_or_sections', 'axis'),
}
_VARIADIC_METHODS = ('method:reshape', 'method:transpose')
_ALIASES = {'newshape': 'shape', 'shape': 'newshape'}


def call_arg(t, pos=None, name=None):
    n, p, kw = call_parts(t)
    if name is not None and name in kw:
        return kw[name]
    if pos is not None and pos < len(p):
        return p[pos]
    sig = SIGS.get(canon(n)) if n is not None and n not in _VARIADIC_METHODS else None
    if sig is None and isinstance(t, T) and t.op == 'call' and t.args[0].op == 'ref' and isinstance(t.args[0].args[0], Func):
        f = t.args[0].args[0]
        sig = tuple(f.posonly + f.args + f.kwonly)      # repo function: its own parameter list
    if sig is not None:
        if name is not None:
            for nm in (name, _ALIASES.get(name)):
                if nm in sig and sig.index(nm) < len(p):
                    return p[sig.index(nm)]
                if nm is not None and nm in kw:
                    return kw[nm]
        if pos is not None and pos < len(sig):
            for nm in (sig[pos], _ALIASES.get(sig[pos])):
                if nm in kw:
                    return kw[nm]
    return None


# equivalent spellings of the same numpy operation (method / function form, aliases): call_parts puts the receiver first,
# so the positional layout is identical
CANON = {
    'method:sum': 'numpy.sum', 'method:mean': 'numpy.mean', 'method:max': 'numpy.amax', 'numpy.max': 'numpy.amax', 'method:min': 'numpy.amin',
    'numpy.min': 'numpy.amin', 'method:prod': 'numpy.prod', 'method:reshape': 'numpy.reshape', 'method:swapaxes': 'numpy.swapaxes',
    'method:transpose': 'numpy.transpose', 'method:squeeze': 'numpy.squeeze', 'method:argmax': 'numpy.argmax', 'method:argmin': 'numpy.argmin',
    'method:cumsum': 'numpy.cumsum', 'method:cumprod': 'numpy.cumprod', 'method:conj': 'numpy.conj', 'method:conjugate': 'numpy.conj',
    'numpy.conjugate': 'numpy.conj', 'numpy.absolute': 'numpy.abs', 'method:copy': 'numpy.copy', 'method:all': 'numpy.all', 'method:any': 'numpy.any',
    'method:clip': 'numpy.clip', 'method:trace': 'numpy.trace', 'method:ravel': 'numpy.ravel', 'numpy.fmax': 'numpy.maximum', 'numpy.fmin': 'numpy.minimum',
    'method:std': 'numpy.std', 'method:var': 'numpy.var', 'numpy.true_divide': 'numpy.divide',
}


def canon(name):
    return CANON.get(name, name)


def is_call_to(t, *names):
    n, _, _ = call_parts(t)
    if n is None:
        return False
    return canon(n) in {canon(x) for x in names}


REDUCERS = {'numpy.sum': 1, 'numpy.mean': 1, 'numpy.amax': 1, 'numpy.max': 1, 'numpy.amin': 1, 'numpy.min': 1, 'numpy.prod': 1,
            'numpy.linalg.norm': 2, 'numpy.argmax': 1, 'numpy.argmin': 1, 'numpy.cumsum': 1, 'numpy.cumprod': 1, 'numpy.all': 1, 'numpy.any': 1,
            'scipy.special.logsumexp': 1, 'numpy.median': 1, 'numpy.percentile': 2, 'numpy.std': 1, 'numpy.var': 1, 'numpy.nansum': 1,
            'numpy.trace': None, 'numpy.expand_dims': 1, 'numpy.squeeze': 1, 'numpy.concatenate': 1, 'numpy.stack': 1, 'numpy.repeat': 2,
            'numpy.take_along_axis': 2, 'numpy.argsort': 1, 'numpy.sort': 1, 'numpy.diff': 2, 'numpy.flip': 1, 'numpy.delete': 2,
            'numpy.append': 2, 'numpy.split': 2, 'numpy.rollaxis': 1, 'numpy.moveaxis': 1, 'numpy.swapaxes': 1}
METHOD_REDUCERS = {'sum': 1, 'mean': 1, 'max': 1, 'min': 1, 'prod': 1, 'argmax': 1, 'argmin': 1, 'cumsum': 1, 'cumprod': 1, 'all': 1, 'any': 1,
                   'std': 1, 'var': 1, 'squeeze': 1, 'swapaxes': 1}


def axis_uses(graph):
    """every call in a function graph that consumes an axis argument: (call term, operand term, axis term|None, name)"""
    out = []
    for e in graph.events:
        if e.kind != 'call':
            continue
        t = e.term
        name, pos, kw = call_parts(t)
        if any(k is None for k, _ in t.args[2]) and 'axis' not in kw:
            continue          # f(x, **options) with options that are not a literal here: whether an axis is named is not visible at this site
        if name in REDUCERS:
            ax = kw.get('axis')
            pi = REDUCERS[name]
            if ax is None and pi is not None and pi < len(pos):
                ax = pos[pi]
            out.append((t, pos[0] if pos else None, ax, name, e))
        elif name and name.startswith('method:') and name[7:] in METHOD_REDUCERS:
            ax = kw.get('axis')
            pi = METHOD_REDUCERS[name[7:]]
            if ax is None and pi < len(pos):
                ax = pos[pi]
            out.append((t, pos[0], ax, name, e))
    return out


def dead_leaf(t):
    """a leaf of a conditional that stands for a path that does not continue: an exception, the KeyError of a dispatch table"""
    return isinstance(t, T) and (t.op == 'raise' or (t.op == 'unknown' and t.args == ('keyerror',)))


def unwrap_gamma(t):
    """all alternatives of a gamma tree (leaves)"""
    out, stack = [], [t]
    while stack:
        x = stack.pop()
        if isinstance(x, T) and x.op == 'gamma':
            c = x.args[0]
            if isinstance(c, T) and c.op == 'const' and c.args[0] is True:
                stack.append(x.args[1])     # a literal flag handed to an inlined helper (`copy=True`): only the live branch is an alternative
            elif isinstance(c, T) and c.op == 'const' and c.args[0] is False:
                stack.append(x.args[2])
            else:
                stack.append(x.args[1])
                stack.append(x.args[2])
        elif isinstance(x, T) and x.op == 'refine':
            stack.append(x.args[0])
        else:
            out.append(x)
    return out


def mult_factors(t):
    """factors of a (possibly in-place, possibly conditional) product chain: x * a * b -> [x, a, b];
    conditional factors (applied under a gamma) are returned with their condition"""
    out = []

    def rec(x, cond):
        if isinstance(x, T) and x.op in ('binop', 'iop') and x.args[0] == 'Mult':
            rec(x.args[1], cond)
            rec(x.args[2], cond)
        elif isinstance(x, T) and x.op == 'gamma':
            a, b = x.args[1], x.args[2]
            # gamma(c ? base*f : base): f is a conditional factor of the same base
            fa, fb = [], []
            rec2(a, fa)
            rec2(b, fb)
            ida, idb = {id(y) for y in fa}, {id(y) for y in fb}
            common = [y for y in fa if id(y) in idb]
            if common:
                for y in common:
                    out.append((y, cond))
                for y in fa:
                    if id(y) not in idb:
                        out.append((y, (x.args[0], True)))
                for y in fb:
                    if id(y) not in ida:
                        out.append((y, (x.args[0], False)))
            else:
                out.append((x, cond))
        else:
            out.append((x, cond))

    def rec2(x, acc):
        if isinstance(x, T) and x.op in ('binop', 'iop') and x.args[0] == 'Mult':
            rec2(x.args[1], acc)
            rec2(x.args[2], acc)
        else:
            acc.append(x)

    rec(t, None)
    return out


SHAPE_ATTRS = ('shape', 'ndim', 'dtype', 'size')


def data_terms(t, seen=None, into_mu=True):
    """like walk_terms but does not descend into shape-only uses (x.shape, x.ndim, x.dtype, len(x))"""
    seen = seen if seen is not None else set()
    stack = [t]
    while stack:
        x = stack.pop()
        if not isinstance(x, T) or x.id in seen:
            continue
        seen.add(x.id)
        if x.op == 'attr' and x.args[1] in SHAPE_ATTRS:
            continue
        if x.op == 'call' and x.args[0].op == 'ref' and x.args[0].args[0] == ('builtin', 'len'):
            continue
        if x.op == 'unpack' and x.args[3] is None and isinstance(x.args[0], T) and x.args[0].op in ('tuple', 'list') \
                and len(x.args[0].args[0]) == x.args[2] and not any(isinstance(y, T) and y.op == 'star' for y in x.args[0].args[0]):
            stack.append(x.args[0].args[0][x.args[1]])
            continue
        if x.op in ('unpack', 'elem'):
            # the element of `for a, b in zip(A, B)` / `enumerate(A)` depends on ITS sequence only; the running index on none
            r = loop_role(x)
            if r is not None:
                yield x
                if r[0] == 'slice':
                    stack.append(r[2])
                continue
        yield x
        for a in x.args:
            if isinstance(a, T):
                stack.append(a)
            elif isinstance(a, tuple):
                for y in a:
                    if isinstance(y, T):
                        stack.append(y)
                    elif isinstance(y, tuple):
                        stack.extend(z for z in y if isinstance(z, T))
        if x.op == 'mu' and into_mu and x.next is not None:
            stack.append(x.next)


def data_derives(t, pname):
    """does the *value* of t depend on parameter pname (shape-only uses do not count)?"""
    return t is not None and any(x.op == 'param' and x.args[0] == pname for x in data_terms(t))


def ret_alts(graph):
    """distinct non-raising return alternatives of a function graph"""
    out, seen = [], set()
    for x in unwrap_gamma(graph.ret):
        if isinstance(x, T) and x.op == 'raise':
            continue
        if id(x) in seen:
            continue
        seen.add(id(x))
        out.append(x)
    return out


def _n_items(idx):
    return len(idx.args[0]) if isinstance(idx, T) and idx.op == 'tuple' else 1


def _plain_index_items(idx):
    """items of an index without its trailing full slices, or None if the index contains `...`, None or a starred part"""
    items = list(idx.args[0]) if isinstance(idx, T) and idx.op == 'tuple' else [idx]
    for x in items:
        if not isinstance(x, T) or x.op == 'star' or (x.op == 'const' and (x.args[0] is None or x.args[0] is Ellipsis)):
            return None
    while len(items) > 1 and is_full_slice(items[-1]):
        items.pop()
    return items


def struct_eq_modulo(a, b, pairs, depth=0):
    """structural equality of two terms where the designated pairs of leaves (x in a, y in b) count as equal"""
    if a is b:
        return True
    if depth > 60:
        return False
    if isinstance(a, T) and isinstance(b, T):
        for x, y in pairs:
            if (a is x and b is y):
                return True
        a2, b2 = strip_views(a), strip_views(b)
        if a2 is not a or b2 is not b:
            return struct_eq_modulo(a2, b2, pairs, depth + 1)
        if a.op == 'sub' and b.op == 'sub':
            # x[i, :] and x[i] select the same: trailing full slices of a plain index (no `...`, no None) do not matter
            ia, ib = _plain_index_items(a.args[1]), _plain_index_items(b.args[1])
            if ia is not None and ib is not None and (len(ia) != _n_items(a.args[1]) or len(ib) != _n_items(b.args[1])):
                return struct_eq_modulo(a.args[0], b.args[0], pairs, depth + 1) and len(ia) == len(ib) and \
                    all(struct_eq_modulo(x, y, pairs, depth + 1) for x, y in zip(ia, ib))
        if a.op != b.op or len(a.args) != len(b.args):
            return False
        if a.op == 'param':
            return a.args == b.args and a.fn is b.fn
        if a.op in ('mu', 'elem'):
            return False
        if a.op == 'binop' and a.args[0] in COMMUTATIVE and a.args[0] == b.args[0]:
            return (struct_eq_modulo(a.args[1], b.args[1], pairs, depth + 1) and struct_eq_modulo(a.args[2], b.args[2], pairs, depth + 1)) or \
                (struct_eq_modulo(a.args[1], b.args[2], pairs, depth + 1) and struct_eq_modulo(a.args[2], b.args[1], pairs, depth + 1))
        return all(struct_eq_modulo(x, y, pairs, depth + 1) for x, y in zip(a.args, b.args))
    if isinstance(a, tuple) and isinstance(b, tuple) and len(a) == len(b):
        return all(struct_eq_modulo(x, y, pairs, depth + 1) for x, y in zip(a, b))
    return a == b


def cond_polarity(cond, pol=True):
    """strip negations from a condition term: (positive condition, polarity)"""
    while isinstance(cond, T) and cond.op == 'unop' and cond.args[0] == 'Not':
        cond, pol = cond.args[1], not pol
    return cond, pol


def none_test(cond, pol=True):
    """(tested term, True if the guard means `x is None` / False if `x is not None`) or (None, None).
    Comparison operators are canonical (`is not` is Not(Is)), see terms.NEGATED_CMP"""
    cond, pol = cond_polarity(cond, pol)
    if isinstance(cond, T) and cond.op == 'cmp' and cond.args[0] in ('Is', 'IsNot', 'Eq', 'NotEq'):
        a, b = cond.args[1], cond.args[2]
        if const_val(b) is None:
            x = a
        elif const_val(a) is None:
            x = b
        else:
            return None, None
        if cond.args[0] in ('IsNot', 'NotEq'):
            pol = not pol
        return strip_views(x), pol
    return None, None


def guard_means_given(c, pname):
    """c = (condition term, polarity) as recorded by mult_factors / event guards: does it say `pname is not None`?"""
    if not (isinstance(c, tuple) and len(c) == 2):
        return False
    x, is_none = none_test(c[0], c[1])
    return x is not None and x.op == 'param' and x.args[0] == pname and is_none is False


def newaxis_insertions(t):
    """t == x[idx] where idx only consists of `...`, full slices and None (np.expand_dims is built as this form too):
    -> (x, [positions of the inserted axes in the result: negative = counted from the right, non-negative = from the left]); else None"""
    t = strip_views(t)
    if not (isinstance(t, T) and t.op == 'sub'):
        return None
    idx = t.args[1]
    items = list(idx.args[0]) if idx.op == 'tuple' else [idx]
    kinds = []
    for x in items:
        if x.op == 'slice' and all(const_val(a) is None for a in x.args):
            kinds.append(':')
        elif const_val(x) is None:
            kinds.append('N')
        elif const_val(x) is Ellipsis:
            kinds.append('E')
        else:
            return None
    if kinds.count('E') > 1 or 'N' not in kinds:
        return None
    pos = []
    if 'E' in kinds:
        e = kinds.index('E')
        for i, k in enumerate(kinds):
            if k == 'N':
                pos.append(i if i < e else i - len(kinds))
    else:
        pos = [i for i, k in enumerate(kinds) if k == 'N']
    return t.args[0], pos


def loop_role(t, L=None):
    """role of a term relative to a for-loop (L, or whichever loop its element belongs to):
         ('index', L)        the running index: `i` of `for i in range(n)` / `for i, x in enumerate(X)`
         ('slice', L, X)     the current element of the sequence X: `X[i]`, `x` of `for x in X`, of `enumerate(X)`, of `zip(.., X, ..)`
       else None.  `for i in range(n): f(X[i])` and `for i, x in enumerate(X): f(x)` give the same roles."""
    t = strip_views(t)
    if not isinstance(t, T):
        return None
    if t.op == 'sub':
        r = loop_role(t.args[1], L)
        if r is not None and r[0] == 'index':
            return ('slice', r[1], strip_views(t.args[0]))
        if t.args[1].op == 'tuple' and t.args[1].args[0]:
            # X[i, :, :] / X[i, ...] is X[i]
            items = t.args[1].args[0]
            r = loop_role(items[0], L)
            rest_full = all((x.op == 'slice' and all(const_val(a) is None for a in x.args)) or const_val(x) is Ellipsis for x in items[1:])
            if r is not None and r[0] == 'index' and rest_full:
                return ('slice', r[1], strip_views(t.args[0]))
        return None
    path = []
    while t.op == 'unpack' and t.args[3] is None:
        path.insert(0, t.args[1])
        t = strip_views(t.args[0])
    if t.op != 'elem' or t.extra is None:
        return None
    loop = t.extra
    if L is not None and loop is not L and getattr(L, 'loop', None) is not loop:
        return None
    it = strip_views(t.args[0]) if t.args and isinstance(t.args[0], T) else None
    while it is not None:
        if is_call_to(it, 'builtin.reversed') and len(call_parts(it)[1]) == 1 and not call_parts(it)[2]:
            it = strip_views(call_parts(it)[1][0])          # the same indices / elements, visited from the other end
            continue
        if is_call_to(it, 'builtin.range') and not path:
            return ('index', loop)
        if is_call_to(it, 'numpy.ndindex') and not call_parts(it)[2]:
            dims = call_parts(it)[1]
            if len(dims) == 1 and not path and dims[0].op != 'star':
                return ('index', loop)
            if len(path) == 1 and path[0] < len(dims) and not any(d.op == 'star' for d in dims):
                return ('index', loop_axis(loop, path[0], dims[path[0]]))      # for k, d in np.ndindex(K, D): two independent running indices
            return None
        if is_call_to(it, 'builtin.enumerate') and path and not call_parts(it)[2] and len(call_parts(it)[1]) == 1:
            if path[0] == 0 and len(path) == 1:
                return ('index', loop)
            if path[0] == 1:
                path = path[1:]
                it = strip_views(call_arg(it, 0))
                continue
            return None
        if is_call_to(it, 'builtin.zip') and path and path[0] < len(call_parts(it)[1]):
            it, path = strip_views(call_parts(it)[1][path[0]]), path[1:]
            continue
        if not path and not is_call_to(it, 'builtin.range', 'builtin.enumerate', 'builtin.zip'):
            return ('slice', loop, it)
        return None
    return None


def shape_dim(t):
    """t denotes one axis length of an array: `*_, K, N = x.shape` / x.shape[i] / len(x) -> (x term, position: negative = from the
    right, non-negative = from the left); else None"""
    t = strip_views(t)
    if not isinstance(t, T):
        return None
    if t.op == 'unpack' and isinstance(t.args[0], T):
        v = strip_views(t.args[0])
        i, n, star = t.args[1], t.args[2], t.args[3]
        if v.op == 'attr' and v.args[1] == 'shape':
            if star is None:
                return strip_views(v.args[0]), i - n
            if i > star:
                return strip_views(v.args[0]), i - n
            if i < star:
                return strip_views(v.args[0]), i
            return None
        if v.op == 'sub' and strip_views(v.args[0]).op == 'attr' and strip_views(v.args[0]).args[1] == 'shape' and star is None:
            sl = v.args[1]
            if sl.op == 'slice':
                lo, hi, st = (const_val(x) for x in sl.args)
                if isinstance(lo, int) and lo < 0 and hi is None and st is None and -lo == n:
                    return strip_views(strip_views(v.args[0]).args[0]), i - n
                if lo in (None, 0) and isinstance(hi, int) and hi == n and st is None:
                    return strip_views(strip_views(v.args[0]).args[0]), i
        return None
    if t.op == 'sub' and strip_views(t.args[0]).op == 'attr' and strip_views(t.args[0]).args[1] == 'shape':
        k = const_val(t.args[1])
        if isinstance(k, int) and not isinstance(k, bool):
            return strip_views(strip_views(t.args[0]).args[0]), k
    if is_call_to(t, 'builtin.len') and len(call_parts(t)[1]) == 1:
        return strip_views(call_parts(t)[1][0]), 0
    return None


def index_chain(t):
    """flatten nested / tuple indexing and loop elements into (base term, [index items]):
       X[p, k], X[p][k] and `row[k]` with `for p, row in enumerate(X)` all give (X, [('index', Lp), k]).
       Items that are the running index of a loop are given as ('index', loop); all others as stripped terms."""
    t = strip_views(t)
    items = []
    for _ in range(12):
        if isinstance(t, T) and t.op == 'sub':
            idx = t.args[1]
            its = list(idx.args[0]) if idx.op == 'tuple' else [idx]
            conv = []
            for x in its:
                r = loop_role(x)
                conv.append(('index', r[1]) if r is not None and r[0] == 'index' else strip_views(x))
            items = _compose_index(conv, items)
            t = strip_views(t.args[0])
            continue
        r = loop_role(t)
        if r is not None and r[0] == 'slice':
            items = [('index', r[1])] + items
            t = r[2]
            continue
        break
    return t, items


def _compose_index(inner, outer):
    """index items of X[inner][outer] as one index of X: every full slice of `inner` is the axis the next item of `outer`
    addresses (X[f, :, :][p, :] is X[f, p, :]); inner items that consume an axis stay"""
    if not outer:
        return list(inner)
    if any(isinstance(x, T) and (const_val(x) is Ellipsis or const_val(x) is None) for x in list(inner) + [o for o in outer if isinstance(o, T)]):
        return list(inner) + list(outer)        # `...` / None: keep the plain concatenation (callers treat it as unknown layout)
    out, rest = [], list(outer)
    for x in inner:
        if is_full_slice(x) and rest:
            out.append(rest.pop(0))
        else:
            out.append(x)
    return out + rest


def is_full_slice(x):
    return isinstance(x, T) and x.op == 'slice' and all(const_val(a) is None for a in x.args)


def _literal_leaf(leaf):
    """a path leaf whose truth value / None-ness is known: ('val', python value) | ('notnone',) for a tuple / list literal | ('dead',) for a path that does not continue | None"""
    if not isinstance(leaf, T):
        return None
    if leaf.op == 'raise' or (leaf.op == 'unknown' and leaf.args == ('keyerror',)):
        return ('dead',)
    v = const_val(leaf)
    if v is not NOVAL:
        return ('val', v)
    if leaf.op in ('tuple', 'list'):
        return ('notnone', len(leaf.args[0]) > 0)
    return None


def _decided_condition(c, conds, depth):
    """[(path condition, truth value)] of a condition that only depends on enclosing tests: a conditional of constants, or a None test of a conditional of literals; else None"""
    cg = c
    while isinstance(cg, T) and cg.op == 'refine':
        cg = cg.args[0]
    if not isinstance(cg, T):
        return None
    if cg.op == 'gamma':
        out = []
        for c1, leaf in gamma_paths(cg, conds, depth + 1):
            k = _literal_leaf(leaf)
            if k is None:
                return None
            if k[0] == 'dead':
                continue
            out.append((c1, bool(k[1])))
        return out
    if cg.op == 'cmp' and cg.args[0] in ('Is', 'IsNot', 'Eq', 'NotEq'):
        a, b = cg.args[1], cg.args[2]
        if const_val(b) is None and const_val(a) is not None:
            x = a
        elif const_val(a) is None and const_val(b) is not None:
            x = b
        else:
            return None
        while isinstance(x, T) and x.op == 'refine':
            x = x.args[0]
        if not (isinstance(x, T) and x.op == 'gamma'):
            return None
        out = []
        for c1, leaf in gamma_paths(x, conds, depth + 1):
            k = _literal_leaf(leaf)
            if k is None:
                return None
            if k[0] == 'dead':
                continue
            is_none = k[0] == 'val' and k[1] is None
            out.append((c1, is_none if cg.args[0] in ('Is', 'Eq') else not is_none))
        return out
    return None


def gamma_paths(t, conds=None, depth=0):
    """[(path condition {id(cond): (cond term, polarity)}, leaf term)] of a gamma tree (refinements are looked through)"""
    conds = conds or {}
    t0 = t
    while isinstance(t0, T) and t0.op == 'refine':
        t0 = t0.args[0]
    if isinstance(t0, T) and t0.op == 'gamma' and depth < 40:
        c, pol = cond_polarity(t0.args[0])
        decided = _decided_condition(c, conds, depth)
        if decided is not None:
            # a flag that was itself selected by tests (`pooled = kind == 'spherical'`, a column of a dispatch table, `index is None` for an index taken from a table):
            # follow the tests that selected it
            out = []
            for c1, val in decided:
                out += gamma_paths(t0.args[1] if val == pol else t0.args[2], c1, depth + 1)
            return out
        out = []
        for br, p in ((t0.args[1], pol), (t0.args[2], not pol)):
            prev = conds.get(id(c))
            if prev is not None and prev[1] != p:
                continue        # contradicts an enclosing test of the same condition
            c2 = dict(conds)
            c2[id(c)] = (c, p)
            out += gamma_paths(br, c2, depth + 1)
        return out
    return [(conds, t0)]


def compatible(c1, c2):
    """two path conditions that do not test the same condition with opposite outcomes"""
    return all(k not in c2 or c2[k][1] == v[1] for k, v in c1.items())


def reaches_param_avoiding(t, pname, barrier, target=None, assume=None):
    """is there a data path from term t down to the parameter `pname` (or to a term satisfying `target`) that does not pass through a term satisfying `barrier`?
    (conditions of gammas are not data; `assume(cond)` -> True / False fixes the outcome of a test, None leaves both alternatives open)"""
    seen, stack = set(), [t]
    while stack:
        x = stack.pop()
        if not isinstance(x, T) or x.id in seen:
            continue
        seen.add(x.id)
        if barrier(x):
            continue
        if target is not None and target(x):
            return True
        if x.op == 'param':
            if pname is not None and x.args[0] == pname:
                return True
            continue
        args = x.args[1:] if x.op == 'gamma' else x.args
        if x.op == 'mu' and isinstance(getattr(x, 'next', None), T):
            stack.append(x.next)            # the value the loop carries back (what its body stored / rebound)
        if x.op == 'gamma' and assume is not None:
            c, pol = cond_polarity(x.args[0])
            v = assume(c)
            if v is not None:
                args = (x.args[1],) if v == pol else (x.args[2],)
        for a in args:
            if isinstance(a, T):
                stack.append(a)
            elif isinstance(a, tuple):
                for b in a:
                    if isinstance(b, T):
                        stack.append(b)
                    elif isinstance(b, tuple):
                        stack.extend(c for c in b if isinstance(c, T))
    return False


def _names_option(x, pname):
    """the parameter `pname`, or the attribute of that name of self (an option stored by the constructor)"""
    return (x.op == 'param' and x.args[0] == pname) or (x.op == 'attr' and x.args[1] == pname and strip_views(x.args[0]).op == 'param' and strip_views(x.args[0]).args[0] == 'self')


def selected_options(conds, pname):
    """path condition -> the option strings this path has positively selected for parameter `pname` (`pname == 'x'`, `pname in ['x', 'y']`): a list of
    sets, one per positive test (a path through `if a: ... elif b:` carries one positive test at most, further ones come from nested tests)"""
    out = []
    for c, pol in conds.values():
        if not pol or not (isinstance(c, T) and c.op == 'cmp'):
            continue
        a, b = strip_views(c.args[1]), strip_views(c.args[2])
        if c.args[0] == 'Eq':
            for x, y in ((a, b), (b, a)):
                if _names_option(x, pname) and isinstance(const_val(y), str):
                    out.append({const_val(y)})
        elif c.args[0] == 'In' and _names_option(a, pname):
            items = None
            if b.op in ('tuple', 'list', 'set'):
                items = [const_val(strip_views(x)) for x in b.args[0]]
            elif isinstance(const_val(b), (tuple, list)):
                items = list(const_val(b))
            if items and all(isinstance(x, str) for x in items):
                out.append(set(items))
    return out


def axis_reordering(t):
    """t is a pure reordering of the axes of its operand (no value is touched):
       np.transpose(x, axes) / x.transpose(*axes) -> (x, ('perm', axes));  swapaxes / an adjacent moveaxis -> (x, ('swap', {a, b}));
       a general moveaxis -> (x, ('move', s, d));  x.T -> (x, ('reverse',));  else None"""
    t = strip_views(t)
    if not isinstance(t, T):
        return None
    if t.op == 'attr' and t.args[1] == 'T':
        return t.args[0], ('reverse',)
    n, pos, kw = call_parts(t)
    if n is None:
        return None
    c = canon(n)
    if c == 'numpy.transpose':
        if n == 'method:transpose' and len(pos) > 2:
            ax = tuple(const_val(p) for p in pos[1:])
        else:
            a = call_arg(t, 1, 'axes')
            ax = const_val(a) if a is not None else None
            if isinstance(ax, list):
                ax = tuple(ax)
            if a is not None and a.op == 'list':
                ax = tuple(const_val(x) for x in a.args[0])
        if ax is None:
            return pos[0], ('reverse',)
        if isinstance(ax, tuple) and all(isinstance(x, int) for x in ax):
            return pos[0], ('perm', ax)
        # an axis order that is computed (sorted(range(x.ndim), reverse=True); order = list(range(x.ndim)); order.insert(0, order.pop())): folded for the ranks 2..5 and
        # named by what it is for every one of them
        a = call_arg(t, 1, 'axes') if not (n == 'method:transpose' and len(pos) > 2) else None
        if a is None and n == 'method:transpose' and len(pos) == 2 and pos[1].op == 'star':
            a = pos[1].args[0]
        if a is not None:
            from .inteval import transpose_by_rank, classify_permutations
            perms = transpose_by_rank(a, pos[0])
            spec = classify_permutations(perms) if perms else None
            if spec is not None and spec != ('identity',):
                if spec[0] == 'move' and abs(spec[1] - spec[2]) == 1 and (spec[1] < 0) == (spec[2] < 0):
                    spec = ('swap', frozenset((spec[1], spec[2])))
                return pos[0], spec
        return None
    if c == 'numpy.swapaxes':
        a, b = const_val(call_arg(t, 1, 'axis1')), const_val(call_arg(t, 2, 'axis2'))
        if isinstance(a, int) and isinstance(b, int):
            return pos[0], ('swap', frozenset((a, b)))
        return None
    if c == 'numpy.moveaxis':
        s, d = const_val(call_arg(t, 1, 'source')), const_val(call_arg(t, 2, 'destination'))
        if isinstance(s, int) and isinstance(d, int):
            if abs(s - d) == 1 and (s < 0) == (d < 0):
                return pos[0], ('swap', frozenset((s, d)))
            return pos[0], ('move', s, d)
    return None


def swaps_first_two_of_three(t):
    """(F, K, T) <-> (K, F, T) on a 3-D array, whichever way it is spelled -> operand, else None"""
    r = axis_reordering(t)
    if r is None:
        return None
    x, spec = r
    if spec == ('perm', (1, 0, 2)) or spec in (('swap', frozenset((0, 1))), ('swap', frozenset((-3, -2)))):
        return x
    return None


def last_axis_product_sum(t):
    """t == sum over the LAST axis of an elementwise product: np.sum(a * b, axis=-1[, keepdims]) | np.sum(x ** 2, -1) | np.sum(np.square(x), -1) |
    np.einsum('...d,...d->...', a, b)  ->  (a, b, keepdims) with a is b for a sum of squares; else None"""
    t = strip_views(t)
    if t.op == 'sub':
        ins = newaxis_insertions(t)
        if ins is not None and ins[1] in ([-1],):
            r = last_axis_product_sum(ins[0])          # reduce(...)[..., None] is the keepdims form
            return (r[0], r[1], True) if r is not None and not r[2] else None
    if is_call_to(t, 'numpy.einsum'):
        n, pos, kw = call_parts(t)
        if len(pos) == 3 and isinstance(const_val(pos[0]), str):
            sub = const_val(pos[0]).replace(' ', '')
            import re
            # '...d,...d->...' and, with named leading letters that are all kept, '...fd,...fd->...f'
            m = re.fullmatch(r'\.\.\.([a-zA-Z]*)([a-zA-Z]),\.\.\.([a-zA-Z]*)([a-zA-Z])->\.\.\.([a-zA-Z]*)', sub)
            if m and m.group(2) == m.group(4) and m.group(1) == m.group(3) == m.group(5) and m.group(2) not in m.group(1):
                return strip_views(pos[1]), strip_views(pos[2]), False
        return None
    if not is_call_to(t, 'numpy.sum'):
        return None
    ax = call_arg(t, 1, 'axis')
    if ax is None or const_val(ax) != -1:
        return None
    kd = call_arg(t, 3, 'keepdims')
    kd = bool(const_val(kd)) if kd is not None and const_val(kd) is not NOVAL else False
    x = strip_views(call_arg(t, 0, 'a'))
    if x.op == 'binop' and x.args[0] == 'Mult':
        return strip_views(x.args[1]), strip_views(x.args[2]), kd
    if x.op == 'binop' and x.args[0] == 'Pow' and const_val(x.args[2]) == 2:
        b = strip_views(x.args[1])
        return b, b, kd
    if is_call_to(x, 'numpy.square'):
        b = strip_views(call_arg(x, 0))
        return b, b, kd
    return None


def abs_square_operand(t):
    """t is |x|^2 elementwise, spelled abs(x) ** 2 | abs(x) * abs(x) | (conj(x) * x)[.real] | x.real ** 2 + x.imag ** 2 | x ** 2 / x * x (real x): -> x, else None"""
    t = strip_views(t)
    if t.op == 'call' and call_parts(t)[0] == 'pb_bss.utils::abs_square' and call_arg(t, 0) is not None:
        return strip_views(call_arg(t, 0))       # the package's own |x|^2 (its body is checked with the masks, C18)
    if t.op == 'attr' and t.args[1] == 'real':
        inner = abs_square_operand(t.args[0])
        return inner if inner is not None and _is_conj_product(strip_views(t.args[0])) else None
    if is_call_to(t, 'numpy.real') and call_arg(t, 0) is not None:
        return abs_square_operand(call_arg(t, 0)) if _is_conj_product(strip_views(call_arg(t, 0))) else None
    if t.op in ('binop', 'iop') and t.args[0] == 'Pow' and const_val(t.args[2]) == 2:
        b = strip_views(t.args[1])
        return strip_views(call_arg(b, 0)) if is_call_to(b, 'numpy.abs', 'builtin.abs') else b
    if t.op in ('binop', 'iop') and t.args[0] == 'Mult':
        a, b = strip_views(t.args[1]), strip_views(t.args[2])
        if _is_conj_product(t):
            return b if is_conj_of(a, b) else a
        if a is b or struct_eq(a, b):
            return strip_views(call_arg(a, 0)) if is_call_to(a, 'numpy.abs', 'builtin.abs') else a
    if t.op in ('binop', 'iop') and t.args[0] == 'Add':
        parts = []
        for side in (t.args[1], t.args[2]):
            sd = strip_views(side)
            sq = None
            if sd.op in ('binop', 'iop') and sd.args[0] == 'Pow' and const_val(sd.args[2]) == 2:
                sq = strip_views(sd.args[1])
            elif sd.op in ('binop', 'iop') and sd.args[0] == 'Mult' and (strip_views(sd.args[1]) is strip_views(sd.args[2]) or struct_eq(strip_views(sd.args[1]), strip_views(sd.args[2]))):
                sq = strip_views(sd.args[1])          # re * re
            if sq is not None and sq.op == 'attr' and sq.args[1] in ('real', 'imag'):
                parts.append((sq.args[1], strip_views(sq.args[0])))
        if len(parts) == 2 and {parts[0][0], parts[1][0]} == {'real', 'imag'} and (parts[0][1] is parts[1][1] or struct_eq(parts[0][1], parts[1][1])):
            return parts[0][1]
    return None


def is_conj_of(a, b):
    """a == conj(b) (function or method form)"""
    a = strip_views(a)
    if is_call_to(a, 'numpy.conj'):
        x = strip_views(call_arg(a, 0))
        return x is strip_views(b) or struct_eq(x, strip_views(b))
    return False


def _is_conj_product(t):
    if not (isinstance(t, T) and t.op == 'binop' and t.args[0] == 'Mult'):
        return False
    a, b = strip_views(t.args[1]), strip_views(t.args[2])
    return is_conj_of(a, b) or is_conj_of(b, a)


def as_norm(t):
    """t is the Euclidean norm of x along one axis: np.linalg.norm(x, axis=k[, keepdims]) (default ord) or spelled out as sqrt(sum(|x|^2, axis=k[, keepdims]))
    -> (x, axis term, keepdims bool) else None"""
    t = strip_views(t)
    if is_call_to(t, 'numpy.linalg.norm'):
        o = call_arg(t, 1, 'ord')
        if o is not None and const_val(o) not in (None, 2):
            return None
        kd = call_arg(t, 3, 'keepdims')
        return strip_views(call_arg(t, 0)), call_arg(t, 2, 'axis'), bool(kd is not None and const_val(kd) is True)
    if is_call_to(t, 'numpy.sqrt'):
        sm = strip_views(call_arg(t, 0))
        if is_call_to(sm, 'numpy.sum'):
            x = abs_square_operand(call_arg(sm, 0, 'a'))
            if x is not None:
                kd = call_arg(sm, 3, 'keepdims')
                return x, call_arg(sm, 1, 'axis'), bool(kd is not None and const_val(kd) is True)
        if is_call_to(sm, 'numpy.einsum'):
            r = last_axis_product_sum(sm)
            if r is not None and (is_conj_of(r[0], r[1]) or is_conj_of(r[1], r[0])):
                return (r[1] if is_conj_of(r[0], r[1]) else r[0]), T('const', (-1,)), r[2]
    return None


class LoopAxis:
    """one of the running indices of `for i, j in np.ndindex(n, m)`"""
    def __init__(self, loop, j, extent):
        self.loop, self.j, self.extent = loop, j, extent
        self.iter = None
        self.kind = 'axis'


def loop_axis(loop, j, extent):
    cache = loop.__dict__.setdefault('_axes', {})
    if j not in cache:
        cache[j] = LoopAxis(loop, j, extent)
    return cache[j]


def index_extent(lp):
    """number of iterations of a running index: the n of range(n) / ndindex(.., n, ..), ('len', X) for enumerate(X) / `for x in X`; else None"""
    if isinstance(lp, LoopAxis):
        return strip_views(lp.extent)
    it = strip_views(lp.iter) if getattr(lp, 'iter', None) is not None else None
    if it is None:
        return None
    while is_call_to(it, 'builtin.reversed') and len(call_parts(it)[1]) == 1 and not call_parts(it)[2]:
        it = strip_views(call_parts(it)[1][0])          # as many iterations, from the other end
    if is_call_to(it, 'builtin.range') and len(call_parts(it)[1]) == 1:
        return strip_views(call_parts(it)[1][0])
    if is_call_to(it, 'builtin.enumerate') and len(call_parts(it)[1]) == 1:
        return ('len', strip_views(call_parts(it)[1][0]))
    if is_call_to(it, 'builtin.zip'):
        return ('len', tuple(strip_views(x) for x in call_parts(it)[1]))
    return ('len', it)


def indexed_values(graph):
    """elementwise definitions of arrays: (running index object, value term, defining node) for
         for i in ...: X[i] = v(i)          (a store at the running index)
         X = [v(i) for i in ...]            (a comprehension with one generator)"""
    out = []
    for e in graph.events:
        if e.kind == 'store':
            idx = e.term.args[1]
            items = list(idx.args[0]) if idx.op == 'tuple' else [idx]
            # X[i, :] = v(i): trailing full slices are axes the value is vectorised over - the running index is (i,)
            while len(items) > 1 and items[-1].op == 'slice' and all(const_val(y) is None for y in items[-1].args):
                items.pop()
            roles = [loop_role(x) for x in items]
            # `row[d] = v` with `for k, row in enumerate(X)` is X[k, d] = v: the row view contributes its own running index
            lead = []
            b = strip_views(e.term.args[0])
            for _ in range(4):
                while isinstance(b, T) and b.op in ('mu', 'store'):
                    b = strip_views(b.args[0])
                rb = loop_role(b)
                if rb is not None and rb[0] == 'slice':
                    lead.insert(0, rb[1])
                    b = strip_views(rb[2])
                else:
                    break
            if roles and all(r is not None and r[0] == 'index' for r in roles):
                out.append((tuple(lead) + tuple(r[1] for r in roles), e.term.args[2], e.node))
    seen = set()
    for r in [graph.ret] + [e.term for e in graph.events if e.term is not None]:
        for t in walk_terms(r, seen):
            if t.op == 'comp' and len(t.args[2]) == 1 and len(t.args[1]) == 1 and not t.args[3]:
                # the loop object of the generator hangs on its element term
                els = [x for x in walk_terms(t.args[1][0], into_mu=False) if x.op == 'elem' and x.args and x.args[0] is t.args[2][0] and x.extra is not None]
                if els:
                    out.append(((els[0].extra,), t.args[1][0], t.node))
    return out


REAL_VALUED = ('numpy.abs', 'numpy.absolute', 'builtin.abs', 'numpy.angle', 'numpy.linalg.norm', 'numpy.isfinite', 'numpy.isnan', 'numpy.argmax', 'numpy.argmin', 'numpy.trace_real')
ELEMENTWISE_SAME = ('numpy.log', 'numpy.exp', 'numpy.sqrt', 'numpy.conj', 'numpy.conjugate', 'numpy.sum', 'numpy.mean', 'numpy.maximum', 'numpy.minimum', 'numpy.clip', 'numpy.reshape',
                    'numpy.transpose', 'numpy.swapaxes', 'numpy.moveaxis', 'numpy.squeeze', 'numpy.expand_dims', 'numpy.array', 'numpy.asarray', 'numpy.copy', 'numpy.ascontiguousarray',
                    'numpy.broadcast_to', 'numpy.negative', 'numpy.square', 'numpy.cumsum', 'numpy.prod', 'numpy.trace', 'numpy.diagonal', 'numpy.stack', 'numpy.concatenate', 'numpy.einsum',
                    'numpy.matmul', 'numpy.dot', 'numpy.multiply', 'numpy.add', 'numpy.subtract', 'numpy.divide', 'numpy.where', 'numpy.take_along_axis')


def decided_complex(t, complex_params, memo=None, depth=0):
    """True when t is COMPLEX-TYPED whatever the real parts happen to be: it is computed from a complex-valued parameter by operations that keep the complex type
    (arithmetic, contractions, reductions, views), with no `.real` / `.imag` / abs / angle on the way.  False means 'real or not known' - never grounds for a report."""
    if memo is None:
        memo = {}
    if not isinstance(t, T) or depth > 80:
        return False
    if t.id in memo:
        return memo[t.id]
    memo[t.id] = False
    r = False
    op = t.op
    if op == 'param':
        r = t.args[0] in complex_params
    elif op == 'const':
        r = isinstance(t.args[0], complex)
    elif op == 'refine':
        r = decided_complex(t.args[0], complex_params, memo, depth + 1)
    elif op == 'attr':
        r = False if t.args[1] in ('real', 'imag', 'shape', 'ndim', 'dtype', 'size') else (t.args[1] == 'T' and decided_complex(t.args[0], complex_params, memo, depth + 1))
    elif op in ('binop', 'iop'):
        if t.args[0] in ('Add', 'Sub', 'Mult', 'Div', 'MatMult', 'Pow'):
            r = decided_complex(t.args[1], complex_params, memo, depth + 1) or (t.args[0] != 'Pow' and decided_complex(t.args[2], complex_params, memo, depth + 1))
    elif op == 'unop':
        r = t.args[0] in ('USub', 'UAdd') and decided_complex(t.args[1], complex_params, memo, depth + 1)
    elif op == 'gamma':
        r = decided_complex(t.args[1], complex_params, memo, depth + 1) and decided_complex(t.args[2], complex_params, memo, depth + 1)
    elif op in ('sub', 'mu', 'store'):
        r = decided_complex(t.args[0], complex_params, memo, depth + 1)
    elif op == 'call':
        n, pos, kw = call_parts(t)
        if n is not None:
            c = canon(n)
            if c in REAL_VALUED:
                r = False
            elif c in ELEMENTWISE_SAME or (n.startswith('method:') and canon('numpy.' + n.split(':')[1]) in ELEMENTWISE_SAME):
                ops = [p for p in pos if isinstance(p, T) and not isinstance(const_val(p), str)]
                if c in ('numpy.stack', 'numpy.concatenate') and ops and ops[0].op in ('tuple', 'list'):
                    ops = list(ops[0].args[0])
                if c == 'numpy.where':
                    ops = ops[1:]
                if c in ('numpy.reshape', 'numpy.transpose', 'numpy.swapaxes', 'numpy.moveaxis', 'numpy.squeeze', 'numpy.expand_dims', 'numpy.sum', 'numpy.mean', 'numpy.broadcast_to',
                         'numpy.cumsum', 'numpy.prod', 'numpy.trace', 'numpy.diagonal', 'numpy.array', 'numpy.asarray', 'numpy.take_along_axis', 'numpy.maximum', 'numpy.minimum', 'numpy.clip'):
                    ops = ops[:1]
                    if c in ('numpy.array', 'numpy.asarray') and (len(pos) > 1 or kw.get('dtype') is not None):
                        ops = []            # an explicit dtype decides the type
                r = any(decided_complex(p, complex_params, memo, depth + 1) for p in ops)
    memo[t.id] = r
    return r


def trace_operand(t):
    """t is the trace of a matrix stack over its last two axes, whichever way it is spelled: np.trace(x, axis1=-2, axis2=-1) | np.einsum('...dd', x) | '...dd->...' |
    the sum over the last axis of np.diagonal(x, axis1=-2, axis2=-1)  ->  x, else None"""
    t = strip_views(t)
    if is_call_to(t, 'numpy.trace'):
        a1, a2 = const_val(call_arg(t, 2, 'axis1')) if call_arg(t, 2, 'axis1') is not None else 0, const_val(call_arg(t, 3, 'axis2')) if call_arg(t, 3, 'axis2') is not None else 1
        return call_arg(t, 0, 'a') if {a1, a2} == {-1, -2} else None
    if is_call_to(t, 'numpy.einsum'):
        n, pos, kw = call_parts(t)
        sub = const_val(pos[0]) if pos else NOVAL
        if isinstance(sub, str) and len(pos) == 2:
            lhs, _, rhs = sub.replace(' ', '').partition('->')
            if lhs.startswith('...') and len(lhs) == 5 and lhs[3] == lhs[4] and rhs in ('', '...'):
                return pos[1]
            if lhs.startswith('...') and len(lhs) == 4 and rhs == '...':
                d = strip_views(pos[1])
                if is_call_to(d, 'numpy.diagonal') and {const_val(call_arg(d, 2, 'axis1')), const_val(call_arg(d, 3, 'axis2'))} == {-1, -2}:
                    return call_arg(d, 0, 'a')
        return None
    if is_call_to(t, 'numpy.sum') and const_val(call_arg(t, 1, 'axis')) == -1:
        d = strip_views(call_arg(t, 0, 'a'))
        if is_call_to(d, 'numpy.diagonal') and {const_val(call_arg(d, 2, 'axis1')), const_val(call_arg(d, 3, 'axis2'))} == {-1, -2}:
            return call_arg(d, 0, 'a')
    return None


def only_adds_axes(t):
    """t == x[idx] where idx can only INSERT axes (None), whatever their number: a display of None / `...` / full slices, such a display repeated (`(None,) * k`),
    concatenations of these, starred parts  ->  x; else None.  (x[(None,) * k + (...,)] is x with k leading singleton axes - values untouched)"""
    t = strip_views(t)
    if not (isinstance(t, T) and t.op == 'sub'):
        return None

    def harmless(i, depth=0):
        i = strip_views(i) if isinstance(i, T) and i.op != 'star' else i
        if not isinstance(i, T) or depth > 8:
            return False
        if i.op == 'star':
            return harmless(i.args[0], depth + 1)
        if i.op in ('tuple', 'list'):
            return all(harmless(x, depth + 1) for x in i.args[0])
        if i.op == 'const':
            return i.args[0] is None or i.args[0] is Ellipsis
        if is_full_slice(i):
            return True
        if i.op == 'binop' and i.args[0] == 'Add':
            return harmless(i.args[1], depth + 1) and harmless(i.args[2], depth + 1)
        if i.op == 'binop' and i.args[0] == 'Mult':
            a, b = strip_views(i.args[1]), strip_views(i.args[2])
            return (a.op in ('tuple', 'list') and harmless(a, depth + 1)) or (b.op in ('tuple', 'list') and harmless(b, depth + 1))
        if i.op == 'gamma':
            return harmless(i.args[1], depth + 1) and harmless(i.args[2], depth + 1)
        return False
    return t.args[0] if harmless(t.args[1]) else None


def trailing_items(t, n, depth=0):
    """the last n items of a shape / sequence expression whose tail is spelled out: a display (..., K, N), a concatenation lead + [K, N], tuple(...) / list(...) of these;
    None when the tail is not visible"""
    t = strip_views(t)
    if not isinstance(t, T) or depth > 8:
        return None
    if t.op in ('tuple', 'list'):
        items = list(t.args[0])
        if len(items) >= n and not any(x.op == 'star' for x in items[-n:]):
            return items[-n:]
        return None
    if t.op == 'binop' and t.args[0] == 'Add':
        return trailing_items(t.args[2], n, depth + 1)
    if is_call_to(t, 'builtin.tuple', 'builtin.list') and len(call_parts(t)[1]) == 1:
        return trailing_items(call_parts(t)[1][0], n, depth + 1)
    return None


def inserted_singleton_axes(t, depth=0):
    """positions (negative, counted from the right) of the singleton axes that t inserts into the array it is a view of: x[..., None, :, :] -> {-3};
    followed through swapaxes / adjacent moveaxis (np.swapaxes(x[..., None, :], -3, -2) -> {-3}).  None when t inserts nothing / is not of that form."""
    t = strip_views(t)
    if not isinstance(t, T) or depth > 6:
        return None
    ins = newaxis_insertions(t)
    if ins is not None and ins[1] and all(isinstance(p, int) and p < 0 for p in ins[1]):
        return set(ins[1])
    r = axis_reordering(t)
    if r is not None and r[1][0] == 'swap':
        inner = inserted_singleton_axes(r[0], depth + 1)
        a, b = tuple(r[1][1])
        if inner is not None and a < 0 and b < 0:
            return {b if p == a else a if p == b else p for p in inner}
    return None


def named_front_axes(t, depth=0):
    """how many LEADING axes of the array term t have a meaning fixed by the way t was built, whatever the rank of the function's inputs: the axes written out in
    front of a reshape target ((-1, *trailing) names axis 0), the explicit leading letters of an einsum result ('n...d->n...'), an axis moved to the front
    (np.moveaxis(x, k, 0)), a unit axis inserted in front (x[None]); kept by slices, copies and unary elementwise operations, by building a list of such
    blocks.  A non-negative literal axis below this count addresses the same axis for every input rank."""
    if not isinstance(t, T) or depth > 14:
        return 0
    if t.op in ('refine',):
        return named_front_axes(t.args[0], depth + 1)
    if t.op == 'gamma':
        return min(named_front_axes(t.args[1], depth + 1), named_front_axes(t.args[2], depth + 1))
    if t.op in ('list', 'tuple'):
        return min([named_front_axes(x, depth + 1) for x in t.args[0]] or [0])
    if t.op == 'comp':
        elts = t.args[1] if len(t.args) > 1 and isinstance(t.args[1], tuple) else ()
        return named_front_axes(elts[0], depth + 1) if len(elts) == 1 and isinstance(elts[0], T) else 0
    if t.op == 'sub':
        idx = t.args[1]
        items = list(idx.args[0]) if idx.op == 'tuple' else [idx]
        n = named_front_axes(t.args[0], depth + 1)
        out = 0
        for it in items:
            if it.op == 'const' and it.args[0] is None:
                out += 1
            elif it.op == 'slice':
                if n <= 0:
                    return out
                n -= 1
                out += 1
            elif it.op == 'const' and it.args[0] is Ellipsis:
                return out
            else:
                if n <= 0:
                    return out
                n -= 1          # an integer / loop index consumes the axis
        return out + max(n, 0)
    if t.op == 'call':
        name, pos, kw = call_parts(t)
        if name in ('numpy.reshape', 'method:reshape'):
            shp = pos[1:] if name == 'numpy.reshape' else pos
            if name == 'numpy.reshape' and not shp:
                shp = [kw[k] for k in ('newshape', 'shape') if k in kw]
            if len(shp) == 1 and shp[0].op in ('tuple', 'list'):
                shp = list(shp[0].args[0])
            k = 0
            for it in shp:
                if it.op == 'star':
                    break
                k += 1
            return k if all(x.op != 'attr' for x in shp[:k]) else 0          # (x.shape would be one entry per axis of x)
        if name == 'numpy.einsum' and pos and isinstance(const_val(pos[0]), str) and '->' in const_val(pos[0]):
            rhs = const_val(pos[0]).replace(' ', '').split('->')[1]
            return len(rhs.split('...')[0])
        if name == 'numpy.moveaxis' and len(pos) == 3 and const_val(pos[2]) == 0 and not isinstance(const_val(pos[2]), bool):
            return 1
        if name in ('numpy.swapaxes', 'method:swapaxes') and len(pos) == 3 and any(const_val(p_) == 0 and not isinstance(const_val(p_), bool) for p_ in pos[1:]) \
                and any(strip_views(p_).op == 'param' for p_ in pos[1:]):
            return 1          # np.swapaxes(x, source_axis, 0): the axis the caller named is now axis 0
        if name in ('numpy.asarray', 'numpy.array', 'numpy.copy', 'numpy.ascontiguousarray', 'numpy.conj', 'numpy.conjugate', 'numpy.abs', 'numpy.exp', 'numpy.log', 'numpy.sqrt',
                    'numpy.square', 'numpy.real', 'numpy.imag', 'numpy.stack', 'numpy.concatenate') and pos:
            if name in ('numpy.stack',):
                return 1 if const_val(call_arg(t, 1, 'axis')) in (0, NOVAL) or call_arg(t, 1, 'axis') is None else 0
            return named_front_axes(pos[0], depth + 1)
        if name in ('method:copy', 'method:conj', 'method:conjugate', 'method:astype'):
            return named_front_axes(t.args[0].args[0], depth + 1)
        fq = name
        if fq and fq.endswith('_compute_precision_cholesky') and pos:
            return named_front_axes(pos[0], depth + 1)          # maps a stack of matrices to the stack of their factors
    return 0


def rank_sources_in(ax):
    """the arrays whose rank an axis expression is computed from (x.ndim, np.ndim(x), len(x.shape)), as stripped terms"""
    out = []
    if not isinstance(ax, T):
        return out

    def source(x):
        if x.op == 'attr' and x.args[1] == 'ndim':
            return strip_views(x.args[0])
        if is_call_to(x, 'numpy.ndim') and call_arg(x, 0) is not None:
            return strip_views(call_arg(x, 0))
        if is_call_to(x, 'builtin.len') and call_arg(x, 0) is not None and strip_views(call_arg(x, 0)).op == 'attr' and strip_views(call_arg(x, 0)).args[1] == 'shape':
            return strip_views(strip_views(call_arg(x, 0)).args[0])
        return None
    seen = set()

    def rec(t, depth=0):
        if not isinstance(t, T) or t.id in seen or depth > 30:
            return
        seen.add(t.id)
        s0 = source(t)
        if s0 is not None:
            out.append(s0)
            return
        if t.op == 'binop' and t.args[0] == 'Sub' and isinstance(t.args[1], T) and t.args[1].op == 'binop' and t.args[1].args[0] == 'Mod':
            # a % n - n with n the rank of ANY array with at least |a| axes is the axis a counted from the back: the result does not depend on that rank
            r1, r2 = source(strip_views(t.args[1].args[2])) if isinstance(t.args[1].args[2], T) else None, source(strip_views(t.args[2])) if isinstance(t.args[2], T) else None
            if r1 is not None and r2 is not None and r1 is r2:
                rec(t.args[1].args[1], depth + 1)
                return
        for a in t.args:
            if isinstance(a, T):
                rec(a, depth + 1)
            elif isinstance(a, tuple):
                for b in a:
                    if isinstance(b, T):
                        rec(b, depth + 1)
                    elif isinstance(b, tuple):
                        for c in b:
                            if isinstance(c, T):
                                rec(c, depth + 1)
    rec(ax)
    return out


def foreign_rank_axis(ax, opnd):
    """an axis of `opnd` that is still an expression of the rank of some array after the builder's rank arithmetic: the builder could not tie that rank to the rank of the
    operand.  -> ('foreign', src) when the array is a parameter the operand does not even derive from; ('untied', src) when the operand combines it with other arrays
    (broadcasting: the operand has the rank of the LARGEST of them, the axis is only right while the ranks happen to agree); None when no rank occurs in the axis"""
    a0 = strip_views(ax) if isinstance(ax, T) else ax
    for _ in range(3):
        if isinstance(a0, T) and is_call_to(a0, 'builtin.tuple', 'builtin.list') and len(call_parts(a0)[1]) == 1:
            a0 = strip_views(call_parts(a0)[1][0])
    if isinstance(a0, T) and is_call_to(a0, 'builtin.range') and len(call_parts(a0)[1]) == 1:
        return None          # the first k positions (np.expand_dims(x, tuple(range(k)))): unit axes put in FRONT mean the same for every rank, however k is computed
    srcs = rank_sources_in(ax)
    if not srcs or opnd is None:
        return None
    params = {x.args[0] for x in data_terms(opnd) if x.op == 'param'}
    for s in srcs:
        if s.op == 'param' and s.args[0] not in params:
            return ('foreign', s)
    return ('untied', srcs[0])
