"""Small-domain evaluation of axis arithmetic.

Axis numbers are integers from a tiny range; code that normalises them (`d % x.ndim - x.ndim`), shifts them after another axis was moved (`if t < s < 0: s -= 1`) or
builds permutations from them cannot be decided by matching one spelling.  For a fixed rank and fixed values of the axis parameters the terms that compute axes are
closed integer expressions: `int_eval` folds them (constants, + - * % //, comparisons, and / or / not, conditionals, tuples, len / range of small extents), and
`permutation_of` applies the pure axis reorderings of a term (transpose / moveaxis / swapaxes / rollaxis / .T / .mT) to the identity permutation.  A rule enumerates
the small domain (ranks 2..4, every admissible value of the axis parameters) and requires its layout claim on every point; one point that cannot be folded makes the
rule undecided, never a violation.  Pure constant folding on the term graph: nothing of pb_bss is imported or executed."""
from .terms import T
from .walk import strip_views, call_parts, call_arg, const_val, NOVAL, is_call_to

UNKNOWN = object()


def int_eval(t, env, depth=0):
    """env: {parameter name: int} and {('ndim', parameter name): rank}.  Returns an int / bool / None / tuple of those, or UNKNOWN."""
    if depth > 60 or not isinstance(t, T):
        return UNKNOWN
    if ('term', t.id) in env:
        return env[('term', t.id)]          # a term the caller has given a value (the one unknown of an expression)
    op = t.op
    if op == 'const':
        v = t.args[0]
        return v if isinstance(v, (int, bool, type(None))) and not isinstance(v, float) else UNKNOWN
    if op == 'param':
        return env.get(t.args[0], UNKNOWN)
    if op == 'refine':
        return int_eval(t.args[0], env, depth + 1)
    if op == 'attr' and t.args[1] == 'ndim':
        p = _root_param(t.args[0])
        return env.get(('ndim', p), UNKNOWN) if p is not None else UNKNOWN
    if op in ('binop', 'iop'):
        a, b = int_eval(t.args[1], env, depth + 1), int_eval(t.args[2], env, depth + 1)
        if a is UNKNOWN or b is UNKNOWN:
            return UNKNOWN
        o = t.args[0]
        try:
            if isinstance(a, tuple) and isinstance(b, tuple) and o == 'Add':
                return a + b
            if isinstance(a, tuple) and isinstance(b, int) and o == 'Mult':
                return a * b
            if not (isinstance(a, int) and isinstance(b, int)):
                return UNKNOWN
            return {'Add': lambda: a + b, 'Sub': lambda: a - b, 'Mult': lambda: a * b, 'Mod': lambda: a % b, 'FloorDiv': lambda: a // b}[o]()
        except (KeyError, ZeroDivisionError):
            return UNKNOWN
    if op == 'unop':
        v = int_eval(t.args[1], env, depth + 1)
        if v is UNKNOWN:
            return UNKNOWN
        return -v if t.args[0] == 'USub' and isinstance(v, int) else (not v) if t.args[0] == 'Not' else v if t.args[0] == 'UAdd' else UNKNOWN
    if op == 'cmp':
        a, b = int_eval(t.args[1], env, depth + 1), int_eval(t.args[2], env, depth + 1)
        if a is UNKNOWN or b is UNKNOWN:
            return UNKNOWN
        o = t.args[0]
        try:
            if o in ('In', 'NotIn'):
                return (a in b) == (o == 'In') if isinstance(b, tuple) else UNKNOWN
            if o in ('Is', 'IsNot'):
                return (a is b) == (o == 'Is') if (a is None or b is None) else UNKNOWN
            return {'Lt': a < b, 'LtE': a <= b, 'Gt': a > b, 'GtE': a >= b, 'Eq': a == b, 'NotEq': a != b}[o]
        except (KeyError, TypeError):
            return UNKNOWN
    if op == 'bool':
        vals = [int_eval(x, env, depth + 1) for x in t.args[1]]
        if any(v is UNKNOWN for v in vals):
            return UNKNOWN
        return all(vals) if t.args[0] == 'And' else any(vals)
    if op == 'gamma':
        c = int_eval(t.args[0], env, depth + 1)
        if c is UNKNOWN:
            return UNKNOWN
        return int_eval(t.args[1] if c else t.args[2], env, depth + 1)
    if op in ('tuple', 'list'):
        vals = []
        for x in t.args[0]:
            if x.op == 'star':
                v = int_eval(x.args[0], env, depth + 1)
                if v is UNKNOWN or not isinstance(v, tuple):
                    return UNKNOWN
                vals += list(v)
            else:
                v = int_eval(x, env, depth + 1)
                if v is UNKNOWN:
                    return UNKNOWN
                vals.append(v)
        return tuple(vals)
    if op == 'unpack' and t.args[3] is None:
        v = int_eval(t.args[0], env, depth + 1)
        return v[t.args[1]] if isinstance(v, tuple) and len(v) == t.args[2] else UNKNOWN
    if op == 'sub' and isinstance(t.args[0], T) and strip_views(t.args[0]).op == 'attr' and strip_views(t.args[0]).args[1] == 'shape':
        # x.shape[i] with the extent given in env as ('shape', parameter, i)
        pn = _root_param(strip_views(t.args[0]).args[0])
        i = int_eval(t.args[1], env, depth + 1)
        if pn is not None and isinstance(i, int) and ('shape', pn, i) in env:
            return env[('shape', pn, i)]
        return UNKNOWN
    if op == 'sub' and isinstance(t.args[1], T) and t.args[1].op == 'slice':
        # edges[:-1] / edges[1:] of a folded sequence
        v = int_eval(t.args[0], env, depth + 1)
        b = [int_eval(x, env, depth + 1) if isinstance(x, T) else UNKNOWN for x in t.args[1].args]
        if isinstance(v, tuple) and all(x is None or (isinstance(x, int) and not isinstance(x, bool)) for x in b):
            try:
                return v[slice(*b)]
            except (ValueError, TypeError):
                return UNKNOWN
        return UNKNOWN
    if op == 'sub':
        v, i = int_eval(t.args[0], env, depth + 1), int_eval(t.args[1], env, depth + 1)
        try:
            return v[i] if isinstance(v, tuple) and isinstance(i, int) else UNKNOWN
        except IndexError:
            return UNKNOWN
    if op == 'comp' and len(t.args[1]) == 1 and len(t.args[2]) == 1:
        # [f(i) for i in <small range / tuple> if c(i)]
        it = int_eval(t.args[2][0], env, depth + 1)
        if it is UNKNOWN or not isinstance(it, tuple) or len(it) > 16:
            return UNKNOWN
        out = []
        for i in it:
            env2 = dict(env)
            env2[('elem', t.args[2][0].id)] = i
            conds = [int_eval(c, env2, depth + 1) for c in t.args[3]]
            if any(c is UNKNOWN for c in conds):
                return UNKNOWN
            if all(conds):
                v = int_eval(t.args[1][0], env2, depth + 1)
                if v is UNKNOWN:
                    return UNKNOWN
                out.append(v)
        return tuple(out)
    if op == 'elem' and t.args and isinstance(t.args[0], T):
        return env.get(('elem', t.args[0].id), UNKNOWN)
    if op == 'mutated' and isinstance(t.args[1], T) and t.args[1].op == 'call' and t.args[1].args[0].op == 'attr':
        # a list after one in-place method call: order = list(range(n)); order.insert(0, order.pop())  ->  the list the calls leave behind
        base = int_eval(t.args[0], env, depth + 1)
        if base is UNKNOWN or not isinstance(base, tuple):
            return UNKNOWN
        call = t.args[1]
        meth = call.args[0].args[1]
        if any(a.op == 'star' for a in call.args[1]) or any(k is None for k, _ in call.args[2]):
            return UNKNOWN
        a = [int_eval(x, env, depth + 1) for x in call.args[1]]
        kw_ = {k: int_eval(v, env, depth + 1) for k, v in call.args[2]}
        if any(v is UNKNOWN for v in a) or any(v is UNKNOWN for v in kw_.values()):
            return UNKNOWN
        lst = list(base)
        try:
            if meth == 'insert' and len(a) == 2 and isinstance(a[0], int) and not kw_:
                lst.insert(a[0], a[1])
            elif meth == 'pop' and len(a) <= 1 and not kw_ and all(isinstance(x, int) for x in a):
                lst.pop(*a)
            elif meth == 'remove' and len(a) == 1 and not kw_:
                lst.remove(a[0])
            elif meth == 'append' and len(a) == 1 and not kw_:
                lst.append(a[0])
            elif meth == 'extend' and len(a) == 1 and isinstance(a[0], tuple) and not kw_:
                lst.extend(a[0])
            elif meth == 'reverse' and not a and not kw_:
                lst.reverse()
            elif meth == 'sort' and not a and set(kw_) <= {'reverse'}:
                lst.sort(reverse=bool(kw_.get('reverse', False)))
            elif meth == 'clear' and not a and not kw_:
                lst = []
            else:
                return UNKNOWN
        except (IndexError, ValueError, TypeError):
            return UNKNOWN
        return tuple(lst)
    if op == 'call' and t.args[0].op == 'attr' and t.args[0].args[1] in ('pop', 'index', 'count') and not t.args[2] and not any(a.op == 'star' for a in t.args[1]):
        # the value of xs.pop() / xs.pop(i) / xs.index(v) / xs.count(v) on a list that folds (the receiver is the list BEFORE the call)
        base = int_eval(t.args[0].args[0], env, depth + 1)
        a = [int_eval(x, env, depth + 1) for x in t.args[1]]
        if isinstance(base, tuple) and not any(v is UNKNOWN for v in a):
            try:
                if t.args[0].args[1] == 'pop' and len(a) <= 1 and all(isinstance(x, int) for x in a):
                    return list(base).pop(*a)
                if t.args[0].args[1] == 'index' and len(a) == 1:
                    return base.index(a[0])
                if t.args[0].args[1] == 'count' and len(a) == 1:
                    return base.count(a[0])
            except (IndexError, ValueError):
                return UNKNOWN
        return UNKNOWN
    if op == 'call':
        nm, pos, kw = call_parts(t)
        if nm == 'numpy.arange' and not (set(kw) - {'dtype'}) and 1 <= len(pos) <= 3:
            # block edges: np.arange(0, n + 1, b) enumerates like range
            a = [int_eval(x, env, depth + 1) for x in pos]
            if any(v is UNKNOWN or not isinstance(v, int) or isinstance(v, bool) for v in a) or (len(a) == 3 and a[2] == 0):
                return UNKNOWN
            r = range(*a)
            return tuple(r) if len(r) <= 64 else UNKNOWN
        if nm == 'builtin.zip' and not kw and pos:
            seqs = [int_eval(x, env, depth + 1) for x in pos]
            if any(not isinstance(v, tuple) for v in seqs):
                return UNKNOWN
            return tuple(zip(*seqs))
        if nm == 'builtin.enumerate' and len(pos) == 1 and not kw:
            v = int_eval(pos[0], env, depth + 1)
            return tuple(enumerate(v)) if isinstance(v, tuple) else UNKNOWN
        if nm == 'builtin.sorted' and len(pos) == 1 and set(kw) <= {'reverse'}:
            v = int_eval(pos[0], env, depth + 1)
            rv = int_eval(kw['reverse'], env, depth + 1) if 'reverse' in kw else False
            if isinstance(v, tuple) and rv is not UNKNOWN:
                try:
                    return tuple(sorted(v, reverse=bool(rv)))
                except TypeError:
                    return UNKNOWN
            return UNKNOWN
        if nm in ('builtin.range',) and not kw and 1 <= len(pos) <= 3:
            a = [int_eval(x, env, depth + 1) for x in pos]
            if any(v is UNKNOWN or not isinstance(v, int) for v in a) or (len(a) == 3 and a[2] == 0):
                return UNKNOWN
            r = range(*a)
            return tuple(r) if len(r) <= 16 else UNKNOWN
        if nm in ('builtin.len',) and len(pos) == 1:
            v = int_eval(pos[0], env, depth + 1)
            return len(v) if isinstance(v, tuple) else UNKNOWN
        if nm in ('builtin.tuple', 'builtin.list', 'builtin.sorted') and len(pos) == 1 and not kw:
            v = int_eval(pos[0], env, depth + 1)
            return (tuple(sorted(v)) if nm == 'builtin.sorted' else v) if isinstance(v, tuple) else UNKNOWN
        if nm == 'builtin.reversed' and len(pos) == 1 and not kw:
            v = int_eval(pos[0], env, depth + 1)
            return tuple(reversed(v)) if isinstance(v, tuple) else UNKNOWN
        if nm in ('builtin.int', 'operator.index') and len(pos) == 1:
            return int_eval(pos[0], env, depth + 1)
        if nm in ('builtin.min', 'builtin.max', 'builtin.abs') and pos:
            a = [int_eval(x, env, depth + 1) for x in pos]
            if any(v is UNKNOWN for v in a):
                return UNKNOWN
            try:
                return {'builtin.min': min, 'builtin.max': max, 'builtin.abs': abs}[nm](*a)
            except TypeError:
                return UNKNOWN
        if nm == 'numpy.ndim' and len(pos) == 1:
            p = _root_param(pos[0])
            return env.get(('ndim', p), UNKNOWN) if p is not None else UNKNOWN
    return UNKNOWN


def _root_param(t, depth=0):
    """the parameter an array term is a pure reordering / view / copy of (its rank is that of the parameter)"""
    t = strip_views(t)
    if not isinstance(t, T) or depth > 12:
        return None
    if t.op == 'param':
        return t.args[0]
    if t.op == 'attr' and t.args[1] in ('T', 'mT', 'real', 'imag'):
        return _root_param(t.args[0], depth + 1)
    nm, pos, kw = call_parts(t)
    if nm in ('numpy.transpose', 'method:transpose', 'numpy.moveaxis', 'numpy.swapaxes', 'method:swapaxes', 'numpy.rollaxis', 'numpy.conj', 'method:conj', 'numpy.abs') and pos:
        return _root_param(pos[0], depth + 1)
    if t.op == 'gamma':
        a, b = _root_param(t.args[1], depth + 1), _root_param(t.args[2], depth + 1)
        return a if a == b else None
    return None


def permutation_of(t, pname, env, depth=0):
    """t is computed from parameter `pname` by pure axis reorderings only: the tuple p with result axis i = parameter axis p[i]; else None (UNKNOWN arithmetic: None)"""
    t = strip_views(t)
    if not isinstance(t, T) or depth > 12:
        return None
    n = env.get(('ndim', pname))
    if t.op == 'param':
        return tuple(range(n)) if t.args[0] == pname and n is not None else None
    if t.op == 'gamma':
        c = int_eval(t.args[0], env)
        if c is UNKNOWN:
            return None
        return permutation_of(t.args[1] if c else t.args[2], pname, env, depth + 1)
    if t.op == 'attr' and t.args[1] in ('T', 'mT'):
        p = permutation_of(t.args[0], pname, env, depth + 1)
        if p is None:
            return None
        return p[::-1] if t.args[1] == 'T' else p[:-2] + (p[-1], p[-2])
    nm, pos, kw = call_parts(t)
    if nm is None or not pos:
        return None
    if nm in ('numpy.conj', 'method:conj', 'numpy.conjugate', 'method:conjugate'):
        return permutation_of(pos[0], pname, env, depth + 1)
    p = permutation_of(pos[0], pname, env, depth + 1)
    if p is None:
        return None
    n = len(p)

    def ax(v):
        if not isinstance(v, int) or isinstance(v, bool) or not -n <= v < n:
            raise ValueError
        return v % n
    try:
        if nm in ('numpy.transpose', 'method:transpose'):
            a = call_arg(t, 1, 'axes')
            if a is None and len(pos) == 1:
                return p[::-1]
            axes = int_eval(a, env) if len(pos) <= 2 else tuple(int_eval(x, env) for x in pos[1:])
            if axes is UNKNOWN or not isinstance(axes, tuple) or sorted(ax(v) for v in axes) != list(range(n)):
                return None
            return tuple(p[ax(v)] for v in axes)
        if nm in ('numpy.swapaxes', 'method:swapaxes'):
            a, b = int_eval(call_arg(t, 1, 'axis1'), env), int_eval(call_arg(t, 2, 'axis2'), env)
            q = list(p)
            q[ax(a)], q[ax(b)] = q[ax(b)], q[ax(a)]
            return tuple(q)
        if nm == 'numpy.moveaxis':
            s_, d_ = int_eval(call_arg(t, 1, 'source'), env), int_eval(call_arg(t, 2, 'destination'), env)
            if isinstance(s_, int) and isinstance(d_, int):
                s_, d_ = (s_,), (d_,)
            if not (isinstance(s_, tuple) and isinstance(d_, tuple) and len(s_) == len(d_)):
                return None
            s_, d_ = [ax(v) for v in s_], [ax(v) for v in d_]
            if len(set(s_)) != len(s_) or len(set(d_)) != len(d_):
                return None
            order = [i for i in range(n) if i not in s_]
            for dest, src in sorted(zip(d_, s_)):
                order.insert(dest, src)
            return tuple(p[i] for i in order)
        if nm == 'numpy.rollaxis':
            a = int_eval(call_arg(t, 1, 'axis'), env)
            st = call_arg(t, 2, 'start')
            st = 0 if st is None else int_eval(st, env)
            if not isinstance(st, int):
                return None
            a = ax(a)
            st = st + n if st < 0 else st
            if not 0 <= st <= n:
                return None
            q = list(p)
            x = q[a]
            q[a] = None
            q.insert(st, x)
            q.remove(None)
            return tuple(q)
    except (ValueError, TypeError):
        return None
    return None


def chunk_coverage(iter_term, slice_term, extent_key, extents, env0=None):
    """A loop `for b in <iter_term>` reads the slice `<slice_term>` (lower / upper bound computed from b) of an axis of length T = env[extent_key]: for every T in
    `extents` the slices of all iterations must cover 0..T-1 exactly once.  Returns (True, n) | (False, T, sorted missing, sorted repeated) | None (not foldable)."""
    n = 0
    for T_ in extents:
        env = dict(env0 or {})
        env[extent_key] = T_
        its = int_eval(iter_term, env)
        if its is UNKNOWN or not isinstance(its, tuple):
            return None
        count = [0] * T_
        for b in its:
            env2 = dict(env)
            env2[('elem', iter_term.id)] = b
            lo, hi, st = (int_eval(x, env2) for x in slice_term.args)
            if lo is UNKNOWN or hi is UNKNOWN or st is UNKNOWN or not all(v is None or isinstance(v, int) for v in (lo, hi, st)):
                return None
            for k in range(T_)[slice(lo, hi, st)]:
                count[k] += 1
        n += 1
        missing = [k for k, c in enumerate(count) if c == 0]
        repeated = [k for k, c in enumerate(count) if c > 1]
        if missing or repeated:
            return False, T_, missing, repeated
    return (True, n) if n else None


def trip_count_is(it, pname, values=(0, 1, 2, 3, 5)):
    """the iterable `it` has exactly n elements whenever the parameter pname is n (range(n), range(1, n + 1), reversed(range(n)), range(n)[::-1], ...):
    True / False by evaluation on a few values, None when the iterable cannot be folded"""
    for n in values:
        v = int_eval(it, {pname: n})
        if v is UNKNOWN or not isinstance(v, tuple):
            return None
        if len(v) != n:
            return False
    return True


def transpose_by_rank(axes_term, operand, ranks=(2, 3, 4, 5)):
    """np.transpose(x, <axes computed from x.ndim>): the permutation for each rank in `ranks`, {rank: tuple}, or None when the axes cannot be folded (every `ndim`, `np.ndim`,
    `len(x.shape)` in the expression must be the rank of the transposed operand itself).  A term without any rank in it gives the one permutation it denotes for its own length."""
    from .terms import walk_terms
    rank_terms = []
    op0 = strip_views(operand)
    for x in walk_terms(axes_term, into_mu=False):
        src = None
        if x.op == 'attr' and x.args[1] == 'ndim':
            src = x.args[0]
        elif is_call_to(x, 'numpy.ndim') and call_arg(x, 0) is not None:
            src = call_arg(x, 0)
        elif is_call_to(x, 'builtin.len') and call_arg(x, 0) is not None and strip_views(call_arg(x, 0)).op == 'attr' and strip_views(call_arg(x, 0)).args[1] == 'shape':
            src = strip_views(call_arg(x, 0)).args[0]
        if src is not None:
            if strip_views(src) is not op0 and src is not operand:
                return None
            rank_terms.append(x)
    out = {}
    if not rank_terms:
        v = int_eval(axes_term, {})
        if v is UNKNOWN or not isinstance(v, tuple) or sorted(a % len(v) if isinstance(a, int) and v else None for a in v) != list(range(len(v))):
            return None
        return {len(v): tuple(a % len(v) for a in v)}
    for n in ranks:
        env = {('term', x.id): n for x in rank_terms}
        v = int_eval(axes_term, env)
        if v is UNKNOWN or not isinstance(v, tuple) or len(v) != n or not all(isinstance(a, int) and not isinstance(a, bool) for a in v) or sorted(a % n for a in v) != list(range(n)):
            return None
        out[n] = tuple(a % n for a in v)
    return out


def classify_permutations(perms):
    """{rank: permutation} -> the reordering it is for EVERY rank: ('reverse',) / ('swap', {a, b}) / ('move', s, d) / ('perm', p) for a single rank / ('identity',); else None"""
    if not perms:
        return None
    def moved(n, s, d):
        order = list(range(n))
        s_, d_ = s % n, d % n
        a = order.pop(s_)
        order.insert(d_, a)
        return tuple(order)
    if all(p == tuple(range(n)) for n, p in perms.items()):
        return ('identity',)
    if all(p == tuple(reversed(range(n))) for n, p in perms.items()) and any(n > 2 for n in perms):
        return ('reverse',)
    if len(perms) == 1:
        (n, p), = perms.items()
        return ('perm', p)
    for a, b in ((-1, -2), (0, 1), (-2, -3), (-1, -3), (0, 2), (1, 2), (0, -1)):
        ok = True
        for n, p in perms.items():
            if max(abs(a), abs(b)) > n or (a >= 0 and a >= n) or (b >= 0 and b >= n):
                ok = False
                break
            q = list(range(n))
            q[a % n], q[b % n] = q[b % n], q[a % n]
            if tuple(q) != p:
                ok = False
                break
        if ok:
            return ('swap', frozenset((a, b)))
    for s in (-1, -2, -3, 0, 1, 2):
        for d in (0, -1, 1, -2, 2, -3):
            if s == d:
                continue
            if all((s < n if s >= 0 else -s <= n) and (d < n if d >= 0 else -d <= n) and moved(n, s, d) == p for n, p in perms.items()):
                return ('move', s, d)
    return None
