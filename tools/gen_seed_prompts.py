#!/venv/bin/python
"""Writes the prompts for a round of independent bug-seeding sub-agents to <outdir>/<ID>.txt and creates one scratch worktree of /repo per
agent under /tmp.  The agents get the text of one property and their worktree only (nothing from /verif); what earlier seeders of the same
property needed is listed so that a new agent produces something different.

usage: gen_seed_prompts.py <round tag, e.g. r3> <outdir> [ID ...]"""
import json
import pathlib
import subprocess
import sys

VERIF = pathlib.Path(__file__).resolve().parent.parent
tag, outdir, ids = sys.argv[1], pathlib.Path(sys.argv[2]), sys.argv[3:]
outdir.mkdir(parents=True, exist_ok=True)
props = {}
for line in open(VERIF / 'properties.jsonl'):
    d = json.loads(line)
    props[d['id']] = d
earlier = {}
for m in sorted((VERIF / 'seeded').glob('S*/meta.json')):
    meta = json.loads(m.read_text())
    patch = (m.parent / 'patch.diff').read_text()
    files = sorted({l[6:] for l in patch.splitlines() if l.startswith('+++ b/')})
    earlier.setdefault(meta['property'], []).append(f"{meta['needs']} (in {', '.join(files)})")

TEMPLATE = '''You are helping to evaluate a verification tool for the Python library fgnt/pb_bss (EM mixture models and beamformers for blind source separation). Your job is to act as a "bug seeder": write ONE realistic, subtle change to the library that breaks the semantic property given below, while the library still imports and its existing test suite still passes.

Work ONLY inside your own scratch git worktree of the library: {wt}
(it is a checkout of the library at its current commit; the package is the directory {wt}/pb_bss). Do NOT read or write anything under /verif or /repo. Do not commit; leave your change as an uncommitted working-tree modification. Never use `git stash` (it is shared between worktrees).

THE PROPERTY ({pid}: {title})
Statement: {statement}
Quantifier: {quant}
Why the existing tests cannot settle it: {why}
Code anchors (files): {files}
Mechanisms meant to make it hold:
{mech}

IMPORTANT - be different from earlier attempts. Previous seeders for this property already produced changes that need:
{earlier}
Produce a change that is different in kind AND location from all of these (another function / another mechanism / another clause of the property). Favour: two cooperating sites that each look fine alone; a multi-step call sequence or reused object; a rarely used option or code path; numerics-only degradations guarded by a plausible comment; an arithmetic slip in an index / shape computation; a wrong default that only matters through a wrapper; a refactoring ("clean-up", "vectorisation", "performance") that is almost but not quite equivalent.{hint}

WHAT TO PRODUCE
1. A small change (a few lines, at most ~15) to the library source under {wt}/pb_bss that makes the property FALSE for some inputs/configurations. It must look like a plausible developer mistake or "optimisation". Prefer a change that needs something specific to manifest - a particular option value, a non-default argument, a leading batch axis, an unusual input (zero frames, ties, K>2), a multi-step call sequence, a reused object - NOT one that ordinary default use would expose at once, and not a crash on every call. Do not add new files to the package and do not touch the tests.
2. A demonstration script {wt}/demo_{pid}_{tag}.py (plain Python, run as `cd {wt} && /venv/bin/python demo_{pid}_{tag}.py`, its checks under `if __name__ == '__main__':`) that checks the property on a concrete input and exits with status 0 when the property holds and non-zero (assertion failure) when it is violated. It must FAIL with your change and PASS on the unchanged library (verify both: save your change with `git diff -- pb_bss > /tmp/{pid}_{tag}.patch`, revert it with `git apply -R /tmp/{pid}_{tag}.patch`, re-apply with `git apply /tmp/{pid}_{tag}.patch`).
3. Confirm the existing test suite still passes with your change: run
   cd {wt} && /venv/bin/python -m pytest -q -p no:cacheprovider --timeout=900 --continue-on-collection-errors 2>&1 | tail -5
   (about 30 s; 46 tests fail even on the unchanged library for missing optional dependencies / network - compare the failing set before and after your change by reverting and re-applying your patch; your change must not add failures. A quick way: `... -q 2>&1 | grep -E "^(FAILED|ERROR)" | sed 's/ - .*//' | sort > /tmp/{pid}_{tag}_after.txt` with and without the change and diff.) Remove the junit/ directory pytest creates.

Python is /venv/bin/python (numpy 2.x, scipy, scikit-learn available; no network). Import the library by running from the worktree directory (it is not pip-installed).

FINAL ANSWER (plain text): (a) the unified diff of your change (`git -C {wt} diff -- pb_bss`), (b) one paragraph: what breaks, and what exactly is needed for it to manifest, (c) the demo's output with and without the change, (d) the result of the test-suite comparison. Leave the worktree with the change applied and the demo file present.
'''
for pid in (ids or sorted(props)):
    d = props[pid]
    wt = f'/tmp/w{tag}-{pid}'
    subprocess.run(f'git -C /repo worktree remove --force {wt}', shell=True, capture_output=True)
    subprocess.run(f'git -C /repo worktree add -q --detach {wt} HEAD', shell=True, check=True)
    mech = '\n'.join(f"  - {m['name']} ({m['where']})" for m in d['anchors'].get('mechanism', []))
    import os
    hint = os.environ.get('SEED_HINT', '')
    text = TEMPLATE.format(hint=(' ' + hint) if hint else '', wt=wt, pid=pid, tag=tag, title=d['title'], statement=d['statement'], quant=d['quantifier']['text'], why=d['why_tests_cant'],
                           files=', '.join(d['anchors']['files']), mech=mech, earlier='\n'.join('  * ' + e for e in earlier.get(pid, ['(none yet)'])))
    (outdir / f'{pid}.txt').write_text(text)
    print(pid, wt, len(text))
