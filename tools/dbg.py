#!/venv/bin/python
"""Debugging aid (not part of any check): print return alternatives and events of one function's term graph.
usage: PBV_REPO=<tree> tools/dbg.py <module>::<qualname> [depth] [event kinds, comma separated]"""
import pathlib
import sys
sys.path.insert(0, str(pathlib.Path(__file__).resolve().parent.parent))
from pbv.core import Analysis
from pbv.terms import show
from pbv.walk import ret_alts

A = Analysis.get()
q = sys.argv[1]
depth = int(sys.argv[2]) if len(sys.argv) > 2 else 8
kinds = set(sys.argv[3].split(',')) if len(sys.argv) > 3 else None
g = A.graph(q)
for r in ret_alts(g):
    print('RETURN', show(r, depth))
for e in g.events:
    if kinds is None or e.kind in kinds:
        print('EVENT', e.kind, getattr(e.term, 'lineno', None), show(e.term, depth), '| guards', [(show(c, 3), p) for c, p in (e.guards or [])])
