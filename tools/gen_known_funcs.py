#!/venv/bin/python
"""Freezes the set of function names of the reference tree (pbv/known_funcs.json).

Functions that are *not* in this table are helpers introduced by a later change: the term-graph builder inlines them
at their call sites, so that the structural rules see through an extracted helper exactly as through the original
inline code.  Functions in the table stay call boundaries (several of them are anchors of rules)."""
import ast
import json
import pathlib
import sys

VERIF = pathlib.Path(__file__).resolve().parent.parent
sys.path.insert(0, str(VERIF))
from pbv.model import Program  # noqa


def main():
    prog = Program('/repo')
    out = set()
    for m in prog.mods.values():
        def nested(prefix, node):
            for ch in ast.iter_child_nodes(node):
                if isinstance(ch, (ast.FunctionDef, ast.AsyncFunctionDef)):
                    q = f'{prefix}.<locals>.{ch.name}'
                    out.add(f'{m.name}::{q}')
                    nested(q, ch)
                elif not isinstance(ch, ast.ClassDef):
                    nested(prefix, ch)
        for f in m.funcs.values():
            out.add(f.qual)
            nested(f.qual.split('::', 1)[1], f.node)
        for c in m.classes.values():
            for f in c.methods.values():
                out.add(f.qual)
                nested(f.qual.split('::', 1)[1], f.node)
    p = VERIF / 'pbv' / 'known_funcs.json'
    p.write_text(json.dumps(sorted(out), indent=0))
    print(len(out), 'functions ->', p)
    # constructs of the reference tree that the term graphs do not follow (pbv/opaque.py): a later version of a function is judged against these counts
    from pbv.opaque import all_counts, outer_functions
    from pbv.terms import Graphs
    graphs = Graphs(prog)
    ref = {}
    for m in prog.mods.values():
        for _a, _b, q, node in outer_functions(m.tree):
            try:
                g = graphs.get(prog.func(f'{m.name}::{q}'))
            except Exception:
                g = None
            c = all_counts(node, g, m.tree)
            if c:
                ref[f'{m.name}::{q}'] = dict(c)
    p2 = VERIF / 'pbv' / 'opaque_reference.json'
    p2.write_text(json.dumps(ref, indent=0, sort_keys=True))
    print(len(ref), 'functions with constructs that are not followed ->', p2)


main()
