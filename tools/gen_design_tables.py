#!/venv/bin/python
"""Regenerates the table of independently seeded changes in DESIGN.md from seeded/*/meta.json."""
import json, pathlib, re
ROOT = pathlib.Path(__file__).resolve().parent.parent
rows = ['| name | property | needs | confirmed | first result | caught by (final) | strengthened |', '|---|---|---|---|---|---|---|']
notes = json.loads((ROOT / 'seeded' / 'notes.json').read_text()) if (ROOT / 'seeded' / 'notes.json').exists() else {}
for d in sorted((ROOT / 'seeded').iterdir()):
    m = d / 'meta.json'
    if not m.exists():
        continue
    j = json.loads(m.read_text())
    n = notes.get(j['name'], {})
    rows.append(f"| {j['name']} | {j['property']} | {j.get('needs', '')[:160]} | {'yes' if j.get('confirmed') else 'NO'} | {n.get('first', 'caught')} | "
                f"{', '.join(j.get('checks_reporting_violation') or []) or 'none'} | {n.get('strengthened', '-')} |")
p = ROOT / 'DESIGN.md'
s = p.read_text()
s = re.sub(r'<!-- SEEDED-TABLE-BEGIN -->.*?<!-- SEEDED-TABLE-END -->', '<!-- SEEDED-TABLE-BEGIN -->\n' + '\n'.join(rows) + '\n<!-- SEEDED-TABLE-END -->', s, flags=re.S)
p.write_text(s)
print(len(rows) - 2, 'seeded changes')
