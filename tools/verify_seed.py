#!/venv/bin/python
"""Confirms a seeded change produced by an independent sub-agent and records it under /verif/seeded/<name>/.

usage: verify_seed.py <name> <property id> <agent worktree> [<demo file name>] [--needs "<what it needs to manifest>"]

Steps (all in a fresh scratch worktree of /repo under /tmp, removed afterwards):
  1. demo on the unchanged tree  -> must exit 0
  2. apply the agent's diff; demo -> must exit non-zero
  3. the pinned test suite with the change -> every BASELINE stable_pass test still passes
  4. all static checks against the changed tree (PBV_REPO=<scratch>) -> which properties report a violation
"""
import json
import os
import pathlib
import shutil
import subprocess
import sys
import time

VERIF = pathlib.Path(__file__).resolve().parent.parent


def sh(cmd, cwd=None, env=None, timeout=1800):
    p = subprocess.run(cmd, shell=True, cwd=cwd, env=env, capture_output=True, text=True, timeout=timeout)
    return p.returncode, p.stdout + p.stderr


def static_only(name):
    """re-run only step 4 (all static checks against the tree with the recorded patch applied) and update meta.json"""
    out = VERIF / 'seeded' / name
    meta = json.loads((out / 'meta.json').read_text())
    scratch = f'/tmp/vs-{name}'
    sh(f'git -C /repo worktree remove --force {scratch}')
    rc, o = sh(f'git -C /repo worktree add -q --detach {scratch} HEAD')
    if rc:
        print(o)
        return 2
    try:
        rc, o = sh(f'git apply {out / "patch.diff"}', cwd=scratch)
        if rc:
            print('patch does not apply:', o)
            return 2
        env = dict(os.environ, PBV_REPO=scratch, PBV_EVIDENCE_DIR=f'/tmp/pbv-ev-{name}')
        rc, o = sh('bin/vcheck all', cwd=str(VERIF), env=env, timeout=900)
        viol = [l.strip()[len('violated:'):].strip()[:300] for l in o.splitlines() if l.strip().startswith('violated:')]
        detected = sorted({l.split('property=')[1].split()[0] for l in o.splitlines() if l.startswith('VIOLATION')})
        meta['checks_reporting_violation_first_run'] = meta.get('checks_reporting_violation_first_run', meta.get('checks_reporting_violation'))
        meta['checks_reporting_violation'] = detected
        meta['analysis_errors'] = [l for l in o.splitlines() if l.startswith('ANALYSIS-ERROR')]
        meta['violations'] = viol[:8]
        meta['detected'] = bool(detected)
        meta['static_rerun_at'] = time.strftime('%Y-%m-%dT%H:%M:%SZ', time.gmtime())
        shutil.rmtree(f'/tmp/pbv-ev-{name}', ignore_errors=True)
    finally:
        sh(f'git -C /repo worktree remove --force {scratch}')
    (out / 'meta.json').write_text(json.dumps(meta, indent=1))
    print(name, 'detected by', detected, meta['analysis_errors'])
    return 0


def main():
    args = sys.argv[1:]
    if args and args[0] == '--static-only':
        return max([static_only(n) for n in args[1:]] or [0])
    needs = ''
    if '--needs' in args:
        i = args.index('--needs')
        needs = args[i + 1]
        del args[i:i + 2]
    name, pid, wt = args[:3]
    demo = args[3] if len(args) > 3 else f'demo_{pid}.py'
    out = VERIF / 'seeded' / name
    out.mkdir(parents=True, exist_ok=True)
    rc, diff = sh('git diff -- pb_bss', cwd=wt)
    if not diff.strip():
        print('no diff in', wt)
        return 2
    (out / 'patch.diff').write_text(diff)
    shutil.copy(pathlib.Path(wt) / demo, out / demo)
    scratch = f'/tmp/vs-{name}'
    sh(f'git -C /repo worktree remove --force {scratch}')
    rc, o = sh(f'git -C /repo worktree add -q --detach {scratch} HEAD')
    if rc:
        print(o)
        return 2
    meta = dict(name=name, property=pid, needs=needs, demo=demo, ran=[], at=time.strftime('%Y-%m-%dT%H:%M:%SZ', time.gmtime()))
    try:
        shutil.copy(out / demo, pathlib.Path(scratch) / demo)
        rc0, o0 = sh(f'/venv/bin/python {demo}', cwd=scratch, timeout=900)
        meta['demo_unchanged_exit'] = rc0
        meta['ran'].append(f'cd <scratch> && /venv/bin/python {demo}   # unchanged: exit {rc0}')
        rc, o = sh(f'git apply {out / "patch.diff"}', cwd=scratch)
        if rc:
            print('patch does not apply:', o)
            return 2
        rc1, o1 = sh(f'/venv/bin/python {demo}', cwd=scratch, timeout=900)
        meta['demo_changed_exit'] = rc1
        meta['demo_changed_tail'] = o1.strip().splitlines()[-3:]
        meta['ran'].append(f'git apply patch.diff && /venv/bin/python {demo}   # changed: exit {rc1}')
        # pinned suite
        junit = f'{scratch}/_junit.xml'
        rc, o = sh(f'/venv/bin/python -m pytest -ra -q -p no:cacheprovider --timeout=900 --continue-on-collection-errors --junitxml={junit}', cwd=scratch, timeout=3000)
        base = json.load(open('/root/.vp/BASELINE.json'))
        parsed = f'{scratch}/_parsed.json'
        sh(f'/venv/bin/python {base["parser"]} --kind junit --glob {junit} --out {parsed}')
        res = json.load(open(parsed))
        passed = set(res['passed'])
        missing = [t for t in base['stable_pass'] if t not in passed]
        meta['suite_passed'] = len(passed)
        meta['stable_pass_missing'] = missing[:10]
        meta['ran'].append(f'pinned test suite with the change: {len(passed)} passed, {len(missing)} of the 542 stable_pass tests missing')
        # static checks
        env = dict(os.environ, PBV_REPO=scratch, PBV_EVIDENCE_DIR=f'/tmp/pbv-ev-{name}')
        rc, o = sh('bin/vcheck all', cwd=str(VERIF), env=env, timeout=900)
        viol = {}
        for line in o.splitlines():
            if line.strip().startswith('violated:'):
                cur = line.strip()[len('violated:'):].strip()
                viol.setdefault('_', []).append(cur[:300])
        detected = sorted({l.split('property=')[1].split()[0] for l in o.splitlines() if l.startswith('VIOLATION')})
        errors = [l for l in o.splitlines() if l.startswith('ANALYSIS-ERROR')]
        meta['checks_reporting_violation'] = detected
        meta['analysis_errors'] = errors
        meta['violations'] = viol.get('_', [])[:8]
        meta['ran'].append(f'PBV_REPO=<scratch with change> bin/vcheck all   # violations reported by {detected or "none"}')
        shutil.rmtree(f'/tmp/pbv-ev-{name}', ignore_errors=True)
    finally:
        sh(f'git -C /repo worktree remove --force {scratch}')
    ok = meta.get('demo_unchanged_exit') == 0 and meta.get('demo_changed_exit', 0) != 0 and not meta.get('stable_pass_missing')
    meta['confirmed'] = bool(ok)
    meta['detected'] = bool(meta.get('checks_reporting_violation'))
    (out / 'meta.json').write_text(json.dumps(meta, indent=1))
    print(json.dumps({k: meta[k] for k in ('name', 'property', 'confirmed', 'detected', 'checks_reporting_violation', 'analysis_errors', 'demo_unchanged_exit', 'demo_changed_exit', 'suite_passed', 'stable_pass_missing')}, indent=1))
    for v in meta['violations'][:5]:
        print('  ', v[:260])
    return 0


if __name__ == '__main__':
    sys.exit(main())
