#!/bin/bash
# usage: verify_batch.sh <file with lines: name|property|worktree|demo file|needs>   -- runs tools/verify_seed.py for each line in parallel
cd "$(dirname "$0")/.." || exit 2
mkdir -p /tmp/vslogs
while IFS='|' read -r name pid wt demo needs; do
  [ -z "$name" ] && continue
  ( /venv/bin/python tools/verify_seed.py "$name" "$pid" "$wt" "$demo" --needs "$needs" > "/tmp/vslogs/$name.log" 2>&1 ) &
done < "$1"
wait
while IFS='|' read -r name pid wt demo needs; do
  [ -z "$name" ] && continue
  /venv/bin/python - "$name" <<'PY'
import json, sys
m = json.load(open(f'/verif/seeded/{sys.argv[1]}/meta.json'))
print(m['name'], 'confirmed' if m['confirmed'] else 'NOT CONFIRMED', 'demo', m.get('demo_unchanged_exit'), m.get('demo_changed_exit'), 'missing', len(m.get('stable_pass_missing', [])),
      '-> detected by', m['checks_reporting_violation'], m['analysis_errors'][:1])
for v in m['violations'][:3]:
    print('     ', v[:230])
PY
done < "$1"
