#!/venv/bin/python
"""Generates pbv/selftest_corpus.json: source variants used to test the checker both ways.

Each variant is a list of exact text replacements on files of /repo (applied in memory).
kind = 'mutant'  : breaks one rule instance, still valid python, invisible to the shape-only tests;
                   `expect` is a marker that must appear in the reported construct / detail.
kind = 'neutral' : behaviour-preserving edit; all listed property checks must stay silent.
"""
import json
import pathlib

D = 'pb_bss/distribution/'
C = []


def mut(id, prop, file, old, new, expect=None, nth=0, props=None, all=False, note=''):
    C.append(dict(id=id, kind='mutant', property=prop, properties=props or [prop], expect=expect, note=note,
                  edits=[dict(file=file, old=old, new=new, nth=nth, all=all)]))


def mut2(id, prop, edits, expect=None, props=None, note=''):
    C.append(dict(id=id, kind='mutant', property=prop, properties=props or [prop], expect=expect, note=note,
                  edits=[dict(file=f, old=o, new=n, nth=0) for f, o, n in edits]))


def neu(id, props, edits, note=''):
    C.append(dict(id=id, kind='neutral', properties=props, note=note,
                  edits=[dict(file=f, old=o, new=n, nth=0, all=a) for f, o, n, a in edits]))


ALL_PROPS = None  # filled at the end with the implemented properties

# ------------------------------------------------------------------ re-introduced defects D1..D12 (reverse of the fix: commits)
mut('D12-from_covariance-inplace', 'C20', D + 'complex_angular_central_gaussian.py',
    "            covariance = covariance / np.maximum(\n                cov_trace, np.finfo(cov_trace.dtype).tiny)",
    "            covariance /= np.maximum(cov_trace, np.finfo(cov_trace.dtype).tiny)", expect='from_covariance')
mut('D2-vmfcacgmm-embedding-raw', 'C04', D + 'vmfcacgmm.py',
    "        embedding = embedding / np.maximum(\n            np.linalg.norm(embedding, axis=-1, keepdims=True),\n            np.finfo(embedding.dtype).tiny\n        )\n\n        F, T, D = observation.shape\n        _, _, E = embedding.shape\n\n        if initialization is None",
    "        F, T, D = observation.shape\n        _, _, E = embedding.shape\n\n        if initialization is None", expect='VonMisesFisherTrainer._fit')

# ------------------------------------------------------------------ C20
mut('C20-psd-no-copy', 'C20', 'pb_bss/extraction/beamformer.py', "        mask = np.copy(mask)\n", "        mask = np.asarray(mask)\n", expect='get_power_spectral_density_matrix')
mut('C20-dhtv-no-copy', 'C20', 'pb_bss/permutation_alignment.py', "            features = mask.copy()", "            features = mask", expect='DHTVPermutationAlignment.calculate_mapping')
mut('C20-phase-correction-no-copy', 'C20', 'pb_bss/extraction/beamformer.py', "    vector = np.array(vector, copy=True)", "    vector = np.asarray(vector)", expect='phase_correction')
mut('C20-posterior-inplace-logpdf', 'C20', D + 'mixture_model_utils.py',
    "    affiliation = log_pdf - np.amax(log_pdf, axis=-2, keepdims=True)\n",
    "    affiliation = log_pdf\n    affiliation -= np.amax(log_pdf, axis=-2, keepdims=True)\n", expect='log_pdf', props=['C20'])
mut('C20-wiener-mask-inplace-view', 'C20', 'pb_bss/extraction/mask_module.py',
    "    mask = np.abs(signal)\n\n    mask /= mask.sum(source_axis, keepdims=True) + eps",
    "    mask = signal.real\n\n    mask /= mask.sum(source_axis, keepdims=True) + eps", expect='ideal_ratio_mask')
mut('C20-global-cache', 'C20', D + 'complex_watson.py',
    "    def hypergeometric_ratio(self, concentration):\n",
    "    def hypergeometric_ratio(self, concentration):\n        global _LAST_DIMENSION\n        _LAST_DIMENSION = self.dimension\n", expect='global')
mut('C20-dimension-overwrite', 'C20', D + 'cwmm.py',
    "        if self.dimension is None:\n            self.dimension = y.shape[-1]\n        else:\n            assert self.dimension == y.shape[-1], (",
    "        if True:\n            self.dimension = y.shape[-1]\n        else:\n            assert self.dimension == y.shape[-1], (", expect='dimension')
mut('C20-dimension-no-assert', 'C20', D + 'cbmm.py',
    "            assert self.dimension == y.shape[-1], (\n                \"You initialized the trainer with a different dimension than \"\n                \"you are using to fit a model. Use a new trainer, when you \"\n                \"change the dimension.\"\n            )\n\n        return self._fit(",
    "            pass\n\n        return self._fit(", expect='dimension')
mut('C20-rng-always', 'C20', D + 'gmm.py',
    "        if initialization is None and num_classes is not None:\n            *independent, num_observations, _ = y.shape",
    "        if num_classes is not None or initialization is None:\n            *independent, num_observations, _ = y.shape", expect='rng')
mut('C20-time-seed', 'C20', D + 'vmfmm.py',
    "        if saliency is None:\n            saliency = np.ones_like(initialization[..., 0, :])\n\n        return self._fit(",
    "        if saliency is None:\n            import time\n            saliency = np.ones_like(initialization[..., 0, :]) * (1 + 1e-12 * (time.time() % 1))\n\n        return self._fit(", expect='nondet')
mut('C20-continue-skips-estep', 'C20', D + 'cacgmm.py',
    "            num_classes = initialization.cacg.covariance_eigenvectors.shape[-3]\n\n            model = initialization\n",
    "            num_classes = initialization.cacg.covariance_eigenvectors.shape[-3]\n\n            model = None\n", expect='R-LOOP')
mut('C20-sort-param', 'C20', 'pb_bss/evaluation/sxr_module.py',
    "    K_source, K_target, samples = image_contribution.shape\n",
    "    K_source, K_target, samples = image_contribution.shape\n    noise_contribution.sort(axis=-1)\n", expect='output_sxr')
mut('C20-callee-mutates', 'C20', D + 'utils.py',
    "    norm = np.linalg.norm(signal, ord=ord, axis=axis, keepdims=True)\n",
    "    norm = np.linalg.norm(signal, ord=ord, axis=axis, keepdims=True)\n    np.copyto(signal, signal.conj().conj())\n", expect='R-MUT', note='mutation two calls below the public entry')

# ------------------------------------------------------------------ C04
mut('C04-cwmm-predict-plus-eps', 'C04', D + 'cwmm.py',
    "        y = y / np.maximum(\n            np.linalg.norm(y, axis=-1, keepdims=True), np.finfo(y.dtype).tiny\n        )\n        return self._predict(y)",
    "        y = y / (np.linalg.norm(y, axis=-1, keepdims=True) + np.finfo(y.dtype).tiny)\n        return self._predict(y)", expect='CWMM.predict')
mut('C04-cacg-wrong-axis', 'C04', D + 'complex_angular_central_gaussian.py',
    "    observation = _unit_norm(\n        observation,\n        axis=-1,", "    observation = _unit_norm(\n        observation,\n        axis=-2,", expect='R-NORM')
mut('C04-cacg-eps-style-plus', 'C04', D + 'complex_angular_central_gaussian.py',
    "        eps_style='where',\n    )\n    return np.ascontiguousarray", "        eps_style='plus',\n    )\n    return np.ascontiguousarray", expect='R-NORM')
mut('C04-cbmm-fit-no-normalize', 'C04', D + 'cbmm.py', "        y = normalize_observation(y)\n", "        y = np.asarray(y)\n", expect='ComplexBinghamTrainer._fit')
mut('C04-vmfmm-fit-no-normalize', 'C04', D + 'vmfmm.py',
    "        assert np.isrealobj(y), y.dtype\n        y = y / np.maximum(\n            np.linalg.norm(y, axis=-1, keepdims=True), np.finfo(y.dtype).tiny\n        )\n\n        if initialization is None",
    "        assert np.isrealobj(y), y.dtype\n\n        if initialization is None", expect='VonMisesFisherTrainer._fit')
mut('C04-gcacgmm-predict-norm-axis', 'C04', D + 'gcacgmm.py',
    "        observation = observation / np.maximum(\n            np.linalg.norm(observation, axis=-1, keepdims=True),\n            np.finfo(observation.dtype).tiny,\n        )\n        affiliation, quadratic_form = self._predict(observation, embedding)",
    "        observation = observation / np.maximum(\n            np.linalg.norm(observation, axis=-2, keepdims=True),\n            np.finfo(observation.dtype).tiny,\n        )\n        affiliation, quadratic_form = self._predict(observation, embedding)", expect='GCACGMM.predict')
mut('C04-cacgmm-loglik-raw', 'C04', D + 'cacgmm.py',
    "        assert np.iscomplexobj(y), y.dtype\n        y = normalize_observation(y)  # swap D and N dim\n        affiliation, quadratic_form, log_pdf = self._predict(y)",
    "        assert np.iscomplexobj(y), y.dtype\n        y = np.ascontiguousarray(np.swapaxes(y, -2, -1))\n        affiliation, quadratic_form, log_pdf = self._predict(y)", expect='log_likelihood')
mut('C04-floor-too-large', 'C04', D + 'complex_watson.py',
    "    return observation / np.maximum(\n        np.linalg.norm(observation, axis=-1, keepdims=True),\n        np.finfo(observation.dtype).tiny,\n    )",
    "    return observation / np.maximum(\n        np.linalg.norm(observation, axis=-1, keepdims=True),\n        1e-6,\n    )", expect='ComplexWatsonTrainer._fit')
mut('C04-watson-fit-norm-after', 'C04', D + 'complex_watson.py',
    "        y = y / np.maximum(\n            np.linalg.norm(y, axis=-1, keepdims=True), np.finfo(y.dtype).tiny\n        )\n\n        if saliency is not None:\n            assert is_broadcast_compatible(y.shape[:-1], saliency.shape), (\n                y.shape,\n                saliency.shape,\n            )\n\n        if self.dimension is None:",
    "        y2 = y / np.maximum(\n            np.linalg.norm(y, axis=-1, keepdims=True), np.finfo(y.dtype).tiny\n        )\n\n        if saliency is not None:\n            assert is_broadcast_compatible(y.shape[:-1], saliency.shape), (\n                y.shape,\n                saliency.shape,\n            )\n\n        if self.dimension is None:", expect='ComplexWatsonTrainer.fit')

# ------------------------------------------------------------------ C01
mut('C01-cacgmm-ignores-weight', 'C01', D + 'cacgmm.py',
    "        affiliation = log_pdf_to_affiliation(\n            self.weight,\n            log_pdf,", "        affiliation = log_pdf_to_affiliation(\n            np.ones_like(self.weight),\n            log_pdf,", expect='weight-arg')
mut('C01-posterior-sum-axis', 'C01', D + 'mixture_model_utils.py',
    "        np.sum(affiliation, axis=-2, keepdims=True),\n        np.finfo(affiliation.dtype).tiny,\n    )\n    affiliation /= denominator\n\n    # Strictly",
    "        np.sum(affiliation, axis=-1, keepdims=True),\n        np.finfo(affiliation.dtype).tiny,\n    )\n    affiliation /= denominator\n\n    # Strictly", expect='sum-axis')
mut('C01-posterior-amax-axis', 'C01', D + 'mixture_model_utils.py',
    "    affiliation = log_pdf - np.amax(log_pdf, axis=-2, keepdims=True)", "    affiliation = log_pdf - np.amax(log_pdf, axis=-1, keepdims=True)", expect='amax-axis')
mut('C01-posterior-no-floor', 'C01', D + 'mixture_model_utils.py',
    "    denominator = np.maximum(\n        np.sum(affiliation, axis=-2, keepdims=True),\n        np.finfo(affiliation.dtype).tiny,\n    )\n    affiliation /= denominator\n\n    # Strictly",
    "    denominator = np.sum(affiliation, axis=-2, keepdims=True)\n    affiliation /= denominator\n\n    # Strictly", expect=None)
mut('C01-mask-after-normalisation', 'C01', D + 'mixture_model_utils.py',
    "    if source_activity_mask is not None:\n        assert source_activity_mask.dtype == bool, source_activity_mask.dtype  # noqa\n        affiliation *= source_activity_mask\n\n    denominator = np.maximum(\n        np.sum(affiliation, axis=-2, keepdims=True),\n        np.finfo(affiliation.dtype).tiny,\n    )\n    affiliation /= denominator\n",
    "    denominator = np.maximum(\n        np.sum(affiliation, axis=-2, keepdims=True),\n        np.finfo(affiliation.dtype).tiny,\n    )\n    affiliation /= denominator\n\n    if source_activity_mask is not None:\n        assert source_activity_mask.dtype == bool, source_activity_mask.dtype  # noqa\n        affiliation *= source_activity_mask\n", expect='ORDER')
mut('C01-weight-after-normalisation', 'C01', D + 'mixture_model_utils.py',
    "    # Weight multiplied not in log domain to avoid logarithm of zero.\n    affiliation *= weight\n\n    if source_activity_mask is not None:\n        assert source_activity_mask.dtype == bool, source_activity_mask.dtype  # noqa\n        affiliation *= source_activity_mask\n\n    denominator = np.maximum(\n        np.sum(affiliation, axis=-2, keepdims=True),\n        np.finfo(affiliation.dtype).tiny,\n    )\n    affiliation /= denominator\n",
    "    if source_activity_mask is not None:\n        assert source_activity_mask.dtype == bool, source_activity_mask.dtype  # noqa\n        affiliation *= source_activity_mask\n\n    denominator = np.maximum(\n        np.sum(affiliation, axis=-2, keepdims=True),\n        np.finfo(affiliation.dtype).tiny,\n    )\n    affiliation /= denominator\n    affiliation *= weight\n", expect='ORDER')
mut('C01-gcacgmm-drops-spectral-weight', 'C01', D + 'gcacgmm.py',
    "                    self.spatial_weight * cacg_log_pdf\n                    + self.spectral_weight * gaussian_log_pdf\n",
    "                    self.spatial_weight * cacg_log_pdf\n                    + gaussian_log_pdf\n", expect='GCACGMM')
mut('C01-vmfcacgmm-drops-stream', 'C01', D + 'vmfcacgmm.py',
    "                    self.spatial_weight * cacg_log_pdf\n                    + self.spectral_weight * vmf_log_pdf\n",
    "                    self.spatial_weight * cacg_log_pdf\n                    + self.spectral_weight * cacg_log_pdf\n", expect='VMFCACGMM')
mut('C01-vmfcacgmm-weight-not-unsqueezed', 'C01', D + 'vmfcacgmm.py',
    "            affiliation = log_pdf_to_affiliation(\n                weight=unsqueeze(self.weight, self.weight_constant_axis),",
    "            affiliation = log_pdf_to_affiliation(\n                weight=unsqueeze(1 / vmf_log_pdf.shape[1], self.weight_constant_axis),", expect='weight-arg')
mut('C01-cwmm-fit-predict-other-model', 'C01', D + 'cwmm.py',
    "            inline_permutation_aligner=inline_permutation_aligner,\n        )\n        return model.predict(y)",
    "            inline_permutation_aligner=inline_permutation_aligner,\n        )\n        return model._predict(y)", expect='fit_predict')
mut('C01-random-init-wrong-axis', 'C01', D + 'vmfmm.py',
    "            initialization \\\n                /= np.einsum(\"...kn->...n\", initialization)[..., None, :]",
    "            initialization \\\n                /= np.einsum(\"...kn->...k\", initialization)[..., :, None]", expect='random-init')
mut('C01-iid-permfree-wrong-axis', 'C01', 'pb_bss/initializer/iid.py',
    "        affiliation = np.random.uniform(size=affiliation_shape[-2:])\n        affiliation /= np.einsum(\"...kn->...n\", affiliation)[..., None, :]",
    "        affiliation = np.random.uniform(size=affiliation_shape[-2:])\n        affiliation /= np.einsum(\"...kn->...k\", affiliation)[..., :, None]", expect='random-init')
mut('C01-flag-axis', 'C01', 'pb_bss/initializer/deterministic.py',
    "        init /= np.sum(init, keepdims=True, axis=-2)", "        init /= np.sum(init, keepdims=True, axis=-1)", expect='flag')
mut('C01-weight-l1-axis', 'C01', D + 'mixture_model_utils.py',
    "            ord=1,\n            axis=-2,\n            eps=1e-10,\n            eps_style='where',\n        )\n\n    return weight\n\n\ndef _estimate",
    "            ord=1,\n            axis=-1,\n            eps=1e-10,\n            eps_style='where',\n        )\n\n    return weight\n\n\ndef _estimate", expect='l1-class-axis')
mut('C01-cacg-quadratic-form-unfloored', 'C01', D + 'complex_angular_central_gaussian.py',
    "        quadratic_form = np.maximum(\n            np.abs(\n                np.einsum(\n                    # '...dt,...kde,...ke,...kge,...gt->...kt',\n                    '...dt,...de,...e,...ge,...gt->...t',\n                    y.conj(),\n                    self.covariance_eigenvectors,\n                    1 / self.covariance_eigenvalues,\n                    self.covariance_eigenvectors.conj(),\n                    y,\n                    optimize='optimal',\n                )\n            ),\n            np.finfo(y.dtype).tiny,\n        )",
    "        quadratic_form = np.abs(\n                np.einsum(\n                    # '...dt,...kde,...ke,...kge,...gt->...kt',\n                    '...dt,...de,...e,...ge,...gt->...t',\n                    y.conj(),\n                    self.covariance_eigenvectors,\n                    1 / self.covariance_eigenvalues,\n                    self.covariance_eigenvectors.conj(),\n                    y,\n                    optimize='optimal',\n                )\n            )", expect='R-SIGN')
mut('C01-inline-pa-sum-axis', 'C01', D + 'mixture_model_utils.py',
    "                np.sum(candidate_affiliation, axis=-2, keepdims=True),", "                np.sum(candidate_affiliation, axis=-1, keepdims=True),", expect='sum-axis')
mut('C01-clip-before-normalise', 'C01', D + 'mixture_model_utils.py',
    "    affiliation /= denominator\n\n    # Strictly, you need re-normalization after clipping. We skip that here.\n    if affiliation_eps != 0:\n        affiliation = np.clip(\n            affiliation, affiliation_eps, 1 - affiliation_eps,\n        )\n\n    return affiliation",
    "    if affiliation_eps != 0:\n        affiliation = np.clip(\n            affiliation, affiliation_eps, 1 - affiliation_eps,\n        )\n    affiliation /= denominator\n\n    return affiliation", expect='ORDER')

# ------------------------------------------------------------------ neutral variants (must stay silent)
neu('N-rename-affiliation-local', ['C01', 'C20', 'C04'], [(D + 'mixture_model_utils.py', "    denominator = np.maximum(\n        np.sum(affiliation, axis=-2, keepdims=True),\n        np.finfo(affiliation.dtype).tiny,\n    )\n    affiliation /= denominator\n",
     "    norm_const = np.maximum(\n        np.sum(affiliation, axis=-2, keepdims=True),\n        np.finfo(affiliation.dtype).tiny,\n    )\n    affiliation /= norm_const\n", False)])
neu('N-posterior-out-of-place', ['C01', 'C20'], [(D + 'mixture_model_utils.py', "    # Weight multiplied not in log domain to avoid logarithm of zero.\n    affiliation *= weight\n",
     "    # Weight multiplied not in log domain to avoid logarithm of zero.\n    affiliation = weight * affiliation\n", False)])
neu('N-cwmm-predict-uses-normalize-observation', ['C04', 'C01', 'C20'], [(D + 'cwmm.py',
     "        y = y / np.maximum(\n            np.linalg.norm(y, axis=-1, keepdims=True), np.finfo(y.dtype).tiny\n        )\n        return self._predict(y)",
     "        y = normalize_observation(y)\n        return self._predict(y)", False)])
neu('N-watson-normalize-where-style', ['C04', 'C20'], [(D + 'complex_watson.py',
     "    return observation / np.maximum(\n        np.linalg.norm(observation, axis=-1, keepdims=True),\n        np.finfo(observation.dtype).tiny,\n    )",
     "    norm = np.linalg.norm(observation, axis=-1, keepdims=True)\n    return observation / np.where(norm == 0, 1., norm)", False)])
neu('N-reformat-shift-lines', ['C01', 'C04', 'C20'], [(D + 'cacgmm.py', "from operator import xor\n", "from operator import xor\n\n\n# reformatted: line numbers move\n\n", False),
                                                       (D + 'mixture_model_utils.py', "import itertools\n", "import itertools\n\n\n\n", False)])
neu('N-hoist-temporary', ['C01', 'C04', 'C20'], [(D + 'cacgmm.py',
     "        log_pdf, quadratic_form = self.cacg._log_pdf(y[..., None, :, :])\n",
     "        y_with_class_axis = y[..., None, :, :]\n        cacg_result = self.cacg._log_pdf(y_with_class_axis)\n        log_pdf, quadratic_form = cacg_result\n", False)])
neu('N-add-unrelated-public-function', ['C01', 'C04', 'C20'], [('pb_bss/extraction/mask_module.py', "def biased_binary_mask(", "def mask_energy(mask):\n    \"\"\"Sum of squares (new helper).\"\"\"\n    mask = np.asarray(mask)\n    return np.sum(mask ** 2)\n\n\ndef biased_binary_mask(", False)])
neu('N-psd-copy-via-array', ['C20'], [('pb_bss/extraction/beamformer.py', "        mask = np.copy(mask)\n", "        mask = np.array(mask, copy=True)\n", False)])
neu('N-gcacgmm-commute-streams', ['C01'], [(D + 'gcacgmm.py',
     "                    self.spatial_weight * cacg_log_pdf\n                    + self.spectral_weight * gaussian_log_pdf\n",
     "                    gaussian_log_pdf * self.spectral_weight\n                    + cacg_log_pdf * self.spatial_weight\n", False)])
neu('N-cacg-normalize-inline', ['C04', 'C20'], [(D + 'complex_angular_central_gaussian.py',
     "    observation = _unit_norm(\n        observation,\n        axis=-1,\n        eps=np.finfo(observation.dtype).tiny,\n        eps_style='where',\n    )\n",
     "    observation = observation / np.maximum(\n        np.linalg.norm(observation, axis=-1, keepdims=True),\n        np.finfo(observation.dtype).tiny,\n    )\n", False)])

out = pathlib.Path(__file__).resolve().parent.parent / 'pbv' / 'selftest_corpus.json'
out.write_text(json.dumps(C, indent=1))
print(len(C), 'variants ->', out)
