#!/venv/bin/python
"""Generates pbv/selftest_corpus.json: source variants used to test the checker both ways.

Each variant is a list of exact text replacements on files of /repo (applied in memory).
kind = 'mutant'  : breaks one rule instance, still valid python, invisible to the shape-only tests;
                   `expect` is a marker that must appear in the reported construct / detail.
kind = 'neutral' : behaviour-preserving edit; all listed property checks must stay silent.
"""
import json
import pathlib

D = 'pb_bss/distribution/'
C = []


def mut(id, prop, file, old, new, expect=None, nth=0, props=None, all=False, note=''):
    C.append(dict(id=id, kind='mutant', property=prop, properties=props or [prop], expect=expect, note=note,
                  edits=[dict(file=file, old=old, new=new, nth=nth, all=all)]))


def mut2(id, prop, edits, expect=None, props=None, note=''):
    C.append(dict(id=id, kind='mutant', property=prop, properties=props or [prop], expect=expect, note=note,
                  edits=[dict(file=f, old=o, new=n, nth=0) for f, o, n in edits]))


def neu(id, props, edits, note='', inconclusive_ok=None):
    C.append(dict(id=id, kind='neutral', properties=props, note=note, **({'inconclusive_ok': inconclusive_ok} if inconclusive_ok else {}),
                  edits=[dict(file=f, old=o, new=n, nth=0, all=a) for f, o, n, a in edits]))


import sys
sys.path.insert(0, str(pathlib.Path(__file__).resolve().parent.parent))
from pbv.props import ALL as ALLP

# ------------------------------------------------------------------ re-introduced defects D1..D12 (reverse of the fix: commits)
mut('D12-from_covariance-inplace', 'C20', D + 'complex_angular_central_gaussian.py',
    "            covariance = covariance / np.maximum(\n                cov_trace, np.finfo(cov_trace.dtype).tiny)",
    "            covariance /= np.maximum(cov_trace, np.finfo(cov_trace.dtype).tiny)", expect='from_covariance')
mut('D2-vmfcacgmm-embedding-raw', 'C04', D + 'vmfcacgmm.py',
    "        embedding = embedding / np.maximum(\n            np.linalg.norm(embedding, axis=-1, keepdims=True),\n            np.finfo(embedding.dtype).tiny\n        )\n\n        F, T, D = observation.shape\n        _, _, E = embedding.shape\n\n        if initialization is None",
    "        F, T, D = observation.shape\n        _, _, E = embedding.shape\n\n        if initialization is None", expect='VonMisesFisherTrainer._fit')

# ------------------------------------------------------------------ C20
mut('C20-psd-no-copy', 'C20', 'pb_bss/extraction/beamformer.py', "        mask = np.copy(mask)\n", "        mask = np.asarray(mask)\n", expect='get_power_spectral_density_matrix')
mut('C20-dhtv-no-copy', 'C20', 'pb_bss/permutation_alignment.py', "            features = mask.copy()", "            features = mask", expect='DHTVPermutationAlignment.calculate_mapping')
mut('C20-phase-correction-no-copy', 'C20', 'pb_bss/extraction/beamformer.py', "    vector = np.array(vector, copy=True)", "    vector = np.asarray(vector)", expect='phase_correction')
mut('C20-posterior-inplace-logpdf', 'C20', D + 'mixture_model_utils.py',
    "    affiliation = log_pdf - np.amax(log_pdf, axis=-2, keepdims=True)\n",
    "    affiliation = log_pdf\n    affiliation -= np.amax(log_pdf, axis=-2, keepdims=True)\n", expect='log_pdf', props=ALLP)
mut('C20-wiener-mask-inplace-view', 'C20', 'pb_bss/extraction/mask_module.py',
    "    mask = np.abs(signal)\n\n    mask /= mask.sum(source_axis, keepdims=True) + eps",
    "    mask = signal.real\n\n    mask /= mask.sum(source_axis, keepdims=True) + eps", expect='ideal_ratio_mask')
mut('C20-global-cache', 'C20', D + 'complex_watson.py',
    "    def hypergeometric_ratio(self, concentration):\n",
    "    def hypergeometric_ratio(self, concentration):\n        global _LAST_DIMENSION\n        _LAST_DIMENSION = self.dimension\n", expect='global')
mut('C20-dimension-overwrite', 'C20', D + 'cwmm.py',
    "        if self.dimension is None:\n            self.dimension = y.shape[-1]\n        else:\n            assert self.dimension == y.shape[-1], (",
    "        if True:\n            self.dimension = y.shape[-1]\n        else:\n            assert self.dimension == y.shape[-1], (", expect='dimension')
mut('C20-dimension-no-assert', 'C20', D + 'cbmm.py',
    "            assert self.dimension == y.shape[-1], (\n                \"You initialized the trainer with a different dimension than \"\n                \"you are using to fit a model. Use a new trainer, when you \"\n                \"change the dimension.\"\n            )\n\n        return self._fit(",
    "            pass\n\n        return self._fit(", expect='dimension')
mut('C20-rng-always', 'C20', D + 'gmm.py',
    "        if initialization is None and num_classes is not None:\n            *independent, num_observations, _ = y.shape",
    "        if num_classes is not None or initialization is None:\n            *independent, num_observations, _ = y.shape", expect='rng')
mut('C20-time-seed', 'C20', D + 'vmfmm.py',
    "        if saliency is None:\n            saliency = np.ones_like(initialization[..., 0, :])\n\n        return self._fit(",
    "        if saliency is None:\n            import time\n            saliency = np.ones_like(initialization[..., 0, :]) * (1 + 1e-12 * (time.time() % 1))\n\n        return self._fit(", expect='nondet')
mut('C20-continue-skips-estep', 'C20', D + 'cacgmm.py',
    "            num_classes = initialization.cacg.covariance_eigenvectors.shape[-3]\n\n            model = initialization\n",
    "            num_classes = initialization.cacg.covariance_eigenvectors.shape[-3]\n\n            model = None\n", expect='R-LOOP')
mut('C20-sort-param', 'C20', 'pb_bss/evaluation/sxr_module.py',
    "    K_source, K_target, samples = image_contribution.shape\n",
    "    K_source, K_target, samples = image_contribution.shape\n    noise_contribution.sort(axis=-1)\n", expect='output_sxr')
mut('C20-callee-mutates', 'C20', D + 'utils.py',
    "    norm = np.linalg.norm(signal, ord=ord, axis=axis, keepdims=True)\n",
    "    norm = np.linalg.norm(signal, ord=ord, axis=axis, keepdims=True)\n    np.copyto(signal, signal.conj().conj())\n", expect='R-MUT', note='mutation two calls below the public entry')

# ------------------------------------------------------------------ C04
mut('C04-cwmm-predict-plus-eps', 'C04', D + 'cwmm.py',
    "        y = y / np.maximum(\n            np.linalg.norm(y, axis=-1, keepdims=True), np.finfo(y.dtype).tiny\n        )\n        return self._predict(y)",
    "        y = y / (np.linalg.norm(y, axis=-1, keepdims=True) + np.finfo(y.dtype).tiny)\n        return self._predict(y)", expect='CWMM.predict')
mut('C04-cacg-wrong-axis', 'C04', D + 'complex_angular_central_gaussian.py',
    "    observation = _unit_norm(\n        observation,\n        axis=-1,", "    observation = _unit_norm(\n        observation,\n        axis=-2,", expect='R-NORM')
mut('C04-cacg-eps-style-plus', 'C04', D + 'complex_angular_central_gaussian.py',
    "        eps_style='where',\n    )\n    return np.ascontiguousarray", "        eps_style='plus',\n    )\n    return np.ascontiguousarray", expect='R-NORM')
mut('C04-cbmm-fit-no-normalize', 'C04', D + 'cbmm.py', "        y = normalize_observation(y)\n", "        y = np.asarray(y)\n", expect='ComplexBinghamTrainer._fit')
mut('C04-vmfmm-fit-no-normalize', 'C04', D + 'vmfmm.py',
    "        assert np.isrealobj(y), y.dtype\n        y = y / np.maximum(\n            np.linalg.norm(y, axis=-1, keepdims=True), np.finfo(y.dtype).tiny\n        )\n\n        if initialization is None",
    "        assert np.isrealobj(y), y.dtype\n\n        if initialization is None", expect='VonMisesFisherTrainer._fit')
mut('C04-gcacgmm-predict-norm-axis', 'C04', D + 'gcacgmm.py',
    "        observation = observation / np.maximum(\n            np.linalg.norm(observation, axis=-1, keepdims=True),\n            np.finfo(observation.dtype).tiny,\n        )\n        affiliation, quadratic_form = self._predict(observation, embedding)",
    "        observation = observation / np.maximum(\n            np.linalg.norm(observation, axis=-2, keepdims=True),\n            np.finfo(observation.dtype).tiny,\n        )\n        affiliation, quadratic_form = self._predict(observation, embedding)", expect='GCACGMM.predict')
mut('C04-cacgmm-loglik-raw', 'C04', D + 'cacgmm.py',
    "        assert np.iscomplexobj(y), y.dtype\n        y = normalize_observation(y)  # swap D and N dim\n        affiliation, quadratic_form, log_pdf = self._predict(y)",
    "        assert np.iscomplexobj(y), y.dtype\n        y = np.ascontiguousarray(np.swapaxes(y, -2, -1))\n        affiliation, quadratic_form, log_pdf = self._predict(y)", expect='log_likelihood')
mut('C04-floor-too-large', 'C04', D + 'complex_watson.py',
    "    return observation / np.maximum(\n        np.linalg.norm(observation, axis=-1, keepdims=True),\n        np.finfo(observation.dtype).tiny,\n    )",
    "    return observation / np.maximum(\n        np.linalg.norm(observation, axis=-1, keepdims=True),\n        1e-6,\n    )", expect='ComplexWatsonTrainer._fit')
mut('C04-watson-fit-norm-after', 'C04', D + 'complex_watson.py',
    "        y = y / np.maximum(\n            np.linalg.norm(y, axis=-1, keepdims=True), np.finfo(y.dtype).tiny\n        )\n\n        if saliency is not None:\n            assert is_broadcast_compatible(y.shape[:-1], saliency.shape), (\n                y.shape,\n                saliency.shape,\n            )\n\n        if self.dimension is None:",
    "        y2 = y / np.maximum(\n            np.linalg.norm(y, axis=-1, keepdims=True), np.finfo(y.dtype).tiny\n        )\n\n        if saliency is not None:\n            assert is_broadcast_compatible(y.shape[:-1], saliency.shape), (\n                y.shape,\n                saliency.shape,\n            )\n\n        if self.dimension is None:", expect='ComplexWatsonTrainer.fit')

# ------------------------------------------------------------------ C01
mut('C01-cacgmm-ignores-weight', 'C01', D + 'cacgmm.py',
    "        affiliation = log_pdf_to_affiliation(\n            self.weight,\n            log_pdf,", "        affiliation = log_pdf_to_affiliation(\n            np.ones_like(self.weight),\n            log_pdf,", expect='weight-arg')
mut('C01-posterior-sum-axis', 'C01', D + 'mixture_model_utils.py',
    "        np.sum(affiliation, axis=-2, keepdims=True),\n        np.finfo(affiliation.dtype).tiny,\n    )\n    affiliation /= denominator\n\n    # Strictly",
    "        np.sum(affiliation, axis=-1, keepdims=True),\n        np.finfo(affiliation.dtype).tiny,\n    )\n    affiliation /= denominator\n\n    # Strictly", expect='sum-axis')
mut('C01-posterior-amax-axis', 'C01', D + 'mixture_model_utils.py',
    "    affiliation = log_pdf - np.amax(log_pdf, axis=-2, keepdims=True)", "    affiliation = log_pdf - np.amax(log_pdf, axis=-1, keepdims=True)", expect='amax-axis')
mut('C01-posterior-no-floor', 'C01', D + 'mixture_model_utils.py',
    "    denominator = np.maximum(\n        np.sum(affiliation, axis=-2, keepdims=True),\n        np.finfo(affiliation.dtype).tiny,\n    )\n    affiliation /= denominator\n\n    # Strictly",
    "    denominator = np.sum(affiliation, axis=-2, keepdims=True)\n    affiliation /= denominator\n\n    # Strictly", expect=None)
mut('C01-mask-after-normalisation', 'C01', D + 'mixture_model_utils.py',
    "    if source_activity_mask is not None:\n        assert source_activity_mask.dtype == bool, source_activity_mask.dtype  # noqa\n        affiliation *= source_activity_mask\n\n    denominator = np.maximum(\n        np.sum(affiliation, axis=-2, keepdims=True),\n        np.finfo(affiliation.dtype).tiny,\n    )\n    affiliation /= denominator\n",
    "    denominator = np.maximum(\n        np.sum(affiliation, axis=-2, keepdims=True),\n        np.finfo(affiliation.dtype).tiny,\n    )\n    affiliation /= denominator\n\n    if source_activity_mask is not None:\n        assert source_activity_mask.dtype == bool, source_activity_mask.dtype  # noqa\n        affiliation *= source_activity_mask\n", expect='ORDER')
mut('C01-weight-after-normalisation', 'C01', D + 'mixture_model_utils.py',
    "    # Weight multiplied not in log domain to avoid logarithm of zero.\n    affiliation *= weight\n\n    if source_activity_mask is not None:\n        assert source_activity_mask.dtype == bool, source_activity_mask.dtype  # noqa\n        affiliation *= source_activity_mask\n\n    denominator = np.maximum(\n        np.sum(affiliation, axis=-2, keepdims=True),\n        np.finfo(affiliation.dtype).tiny,\n    )\n    affiliation /= denominator\n",
    "    if source_activity_mask is not None:\n        assert source_activity_mask.dtype == bool, source_activity_mask.dtype  # noqa\n        affiliation *= source_activity_mask\n\n    denominator = np.maximum(\n        np.sum(affiliation, axis=-2, keepdims=True),\n        np.finfo(affiliation.dtype).tiny,\n    )\n    affiliation /= denominator\n    affiliation *= weight\n", expect='ORDER')
mut('C01-gcacgmm-drops-spectral-weight', 'C01', D + 'gcacgmm.py',
    "                    self.spatial_weight * cacg_log_pdf\n                    + self.spectral_weight * gaussian_log_pdf\n",
    "                    self.spatial_weight * cacg_log_pdf\n                    + gaussian_log_pdf\n", expect='GCACGMM')
mut('C01-vmfcacgmm-drops-stream', 'C01', D + 'vmfcacgmm.py',
    "                    self.spatial_weight * cacg_log_pdf\n                    + self.spectral_weight * vmf_log_pdf\n",
    "                    self.spatial_weight * cacg_log_pdf\n                    + self.spectral_weight * cacg_log_pdf\n", expect='VMFCACGMM')
mut('C01-vmfcacgmm-weight-not-unsqueezed', 'C01', D + 'vmfcacgmm.py',
    "            affiliation = log_pdf_to_affiliation(\n                weight=unsqueeze(self.weight, self.weight_constant_axis),",
    "            affiliation = log_pdf_to_affiliation(\n                weight=unsqueeze(1 / vmf_log_pdf.shape[1], self.weight_constant_axis),", expect='weight-arg')
mut('C01-cwmm-fit-predict-other-model', 'C01', D + 'cwmm.py',
    "            inline_permutation_aligner=inline_permutation_aligner,\n        )\n        return model.predict(y)",
    "            inline_permutation_aligner=inline_permutation_aligner,\n        )\n        return model._predict(y)", expect='fit_predict')
mut('C01-random-init-wrong-axis', 'C01', D + 'vmfmm.py',
    "            initialization \\\n                /= np.einsum(\"...kn->...n\", initialization)[..., None, :]",
    "            initialization \\\n                /= np.einsum(\"...kn->...k\", initialization)[..., :, None]", expect='random-init')
mut('C01-iid-permfree-wrong-axis', 'C01', 'pb_bss/initializer/iid.py',
    "        affiliation = np.random.uniform(size=affiliation_shape[-2:])\n        affiliation /= np.einsum(\"...kn->...n\", affiliation)[..., None, :]",
    "        affiliation = np.random.uniform(size=affiliation_shape[-2:])\n        affiliation /= np.einsum(\"...kn->...k\", affiliation)[..., :, None]", expect='random-init')
mut('C01-flag-axis', 'C01', 'pb_bss/initializer/deterministic.py',
    "        init /= np.sum(init, keepdims=True, axis=-2)", "        init /= np.sum(init, keepdims=True, axis=-1)", expect='flag')
mut('C01-weight-l1-axis', 'C01', D + 'mixture_model_utils.py',
    "            ord=1,\n            axis=-2,\n            eps=1e-10,\n            eps_style='where',\n        )\n\n    return weight\n\n\ndef _estimate",
    "            ord=1,\n            axis=-1,\n            eps=1e-10,\n            eps_style='where',\n        )\n\n    return weight\n\n\ndef _estimate", expect='l1-class-axis')
mut('C01-unsqueeze-descending', 'C01', 'pb_bss/utils.py', "    for p in sorted(axis):\n        shape.insert(p, 1)", "    for p in sorted(axis, reverse=True):\n        shape.insert(p, 1)", expect=None)
s_ = None
mut('C01-unsqueeze-no-modulo', 'C01', 'pb_bss/utils.py', "    axis = [a % future_ndim for a in axis]", "    axis = [a % len(shape) for a in axis]", expect='insertion')
mut('C01-unsqueeze-args-swapped', 'C01', D + 'gcacgmm.py', "                weight=unsqueeze(self.weight, self.weight_constant_axis),\n                log_pdf=(", "                weight=unsqueeze(self.weight, (-1,)),\n                log_pdf=(", expect='unsqueeze-args')
mut('C08-watson-unweighted-denominator', 'C08', D + 'complex_watson.py', "            denominator = np.array(y.shape[-2])", "            denominator = np.array(y.shape[-1])", expect='unweighted-normaliser')
mut('C01-cacg-quadratic-form-unfloored', 'C01', D + 'complex_angular_central_gaussian.py',
    "        quadratic_form = np.maximum(\n            np.abs(\n                np.einsum(\n                    # '...dt,...kde,...ke,...kge,...gt->...kt',\n                    '...dt,...de,...e,...ge,...gt->...t',\n                    y.conj(),\n                    self.covariance_eigenvectors,\n                    1 / self.covariance_eigenvalues,\n                    self.covariance_eigenvectors.conj(),\n                    y,\n                    optimize='optimal',\n                )\n            ),\n            np.finfo(y.dtype).tiny,\n        )",
    "        quadratic_form = np.abs(\n                np.einsum(\n                    # '...dt,...kde,...ke,...kge,...gt->...kt',\n                    '...dt,...de,...e,...ge,...gt->...t',\n                    y.conj(),\n                    self.covariance_eigenvectors,\n                    1 / self.covariance_eigenvalues,\n                    self.covariance_eigenvectors.conj(),\n                    y,\n                    optimize='optimal',\n                )\n            )", expect='R-SIGN')
mut('C01-inline-pa-sum-axis', 'C01', D + 'mixture_model_utils.py',
    "                np.sum(candidate_affiliation, axis=-2, keepdims=True),", "                np.sum(candidate_affiliation, axis=-1, keepdims=True),", expect='sum-axis')
mut('C01-clip-before-normalise', 'C01', D + 'mixture_model_utils.py',
    "    affiliation /= denominator\n\n    # Strictly, you need re-normalization after clipping. We skip that here.\n    if affiliation_eps != 0:\n        affiliation = np.clip(\n            affiliation, affiliation_eps, 1 - affiliation_eps,\n        )\n\n    return affiliation",
    "    if affiliation_eps != 0:\n        affiliation = np.clip(\n            affiliation, affiliation_eps, 1 - affiliation_eps,\n        )\n    affiliation /= denominator\n\n    return affiliation", expect='ORDER')


# ------------------------------------------------------------------ C02 / C03 / C07 / C08
mut('D1-loglik-ignores-weight', 'C02', D + 'cacgmm.py',
    "        log_likelihood = np.sum(scipy.special.logsumexp(\n            log_pdf, axis=-2, b=np.broadcast_to(self.weight, log_pdf.shape)\n        ))",
    "        log_likelihood = np.sum(scipy.special.logsumexp(log_pdf, axis=-2))", expect='log_likelihood')
mut('D3-gaussian-whitening-column', 'C07', D + 'gaussian.py', "            '...Dd,...nD->...nd',", "            '...dD,...nD->...nd',", expect='cholesky-row', props=['C07', 'C03', 'C02'])
mut('D4-diagonal-gaussian-rank', 'C07', D + 'gaussian.py', "            '...d,...nd->...nd',", "            '...dD,...nD->...nd',", expect='precision-rank')
mut('C02-loglik-axis', 'C02', D + 'cacgmm.py', "            log_pdf, axis=-2, b=np.broadcast_to(self.weight, log_pdf.shape)", "            log_pdf, axis=-1, b=np.broadcast_to(self.weight, log_pdf.shape)", expect='class-axis')
mut('C02-stale-quadratic-form', 'C02', D + 'cacgmm.py',
    "                affiliation, quadratic_form, _ = model._predict(\n                    y,",
    "                affiliation, _, _ = model._predict(\n                    y,", expect='mm-pairing', props=['C02'])
mut('C02-gcacgmm-qf-not-updated', 'C02', D + 'gcacgmm.py',
    "                affiliation, quadratic_form = model._predict(\n                    observation=observation,",
    "                affiliation, _ = model._predict(\n                    observation=observation,", expect='mm-pairing')
mut('C02-aligner-only-affiliation', 'C02', D + 'cacgmm.py',
    "                    affiliation, quadratic_form \\\n                        = apply_inline_permutation_alignment(\n                            affiliation=affiliation,\n                            quadratic_form=quadratic_form,",
    "                    affiliation, _unused_qf \\\n                        = apply_inline_permutation_alignment(\n                            affiliation=affiliation,\n                            quadratic_form=quadratic_form,", expect='mm-pairing')
mut('C02-qf-start-zeros', 'C02', D + 'vmfcacgmm.py', "        quadratic_form = np.ones_like(initialization)", "        quadratic_form = np.zeros_like(initialization) + 2.", expect='quadratic-form-start')
mut('C03-cacg-plain-eigenvalues', 'C03', D + 'complex_angular_central_gaussian.py', "                    1 / self.covariance_eigenvalues,", "                    self.covariance_eigenvalues,", expect='reciprocal', props=['C03', 'C07', 'C02'])
mut('C03-pca-smallest', 'C03', 'pb_bss/utils.py', "        beamforming_vector = eigenvecs[..., -1]\n        eigenvalues = eigenvals[..., -1]\n        # Reconstruct original shape\n\n    beamforming_vector",
    "        beamforming_vector = eigenvecs[..., 0]\n        eigenvalues = eigenvals[..., -1]\n        # Reconstruct original shape\n\n    beamforming_vector", expect='eigenvector-index', props=['C03', 'C08'])
mut('C03-pca-row-instead-of-column', 'C03', 'pb_bss/utils.py', "        beamforming_vector = eigenvecs[..., -1]\n        eigenvalues = eigenvals[..., -1]\n        # Reconstruct original shape\n\n    beamforming_vector",
    "        beamforming_vector = eigenvecs[..., -1, :]\n        eigenvalues = eigenvals[..., -1]\n        # Reconstruct original shape\n\n    beamforming_vector", expect='eigvec-axis')
mut('C03-watson-sign', 'C03', D + 'complex_watson.py', "        result -= self.log_norm()[..., None]\n        return result", "        result += self.log_norm()[..., None]\n        return result", expect='log normaliser', props=['C03', 'C07'])
mut('C03-watson-negated-concentration', 'C03', D + 'complex_watson.py', "        result *= self.concentration[..., None]", "        result *= -self.concentration[..., None]", expect='kappa', props=['C03', 'C07'])
mut('C03-vmf-drops-concentration', 'C03', D + 'von_mises_fisher.py', "        result *= self.concentration[..., None]\n", "        result *= 1.0\n", expect='kappa', props=['C03', 'C07'])
mut('C03-cacg-logdet-sign', 'C03', D + 'complex_angular_central_gaussian.py', "        log_pdf -= self.log_determinant[..., None]", "        log_pdf += self.log_determinant[..., None]", expect='log det', props=['C03', 'C07'])
mut('C03-cacg-missing-D', 'C07', D + 'complex_angular_central_gaussian.py', "        log_pdf = -D * np.log(quadratic_form)", "        log_pdf = -np.log(quadratic_form)", expect='-D log', props=['C03', 'C07'])
mut('C07-gaussian-half', 'C07', D + 'gaussian.py', "                - 1 / 2 * np.einsum('...nd,...nd->...n', white_x, white_x)\n        )\n\n\n@dataclass\nclass DiagonalGaussian",
    "                - np.einsum('...nd,...nd->...n', white_x, white_x)\n        )\n\n\n@dataclass\nclass DiagonalGaussian", expect='squared norm')
mut('C07-gaussian-logdet-sign', 'C07', D + 'gaussian.py', "                + self.log_det_precision_cholesky[..., None]\n                - 1 / 2 * np.einsum('...nd,...nd->...n', white_x, white_x)\n        )\n\n\nclass GaussianTrainer",
    "                - self.log_det_precision_cholesky[..., None]\n                - 1 / 2 * np.einsum('...nd,...nd->...n', white_x, white_x)\n        )\n\n\nclass GaussianTrainer", expect='log det')
mut('C07-ccsg-slogdet-sign-component', 'C07', D + 'complex_circular_symmetric_gaussian.py', "            - np.linalg.slogdet(self.covariance)[-1][..., None]", "            - np.linalg.slogdet(self.covariance)[0][..., None]", expect='slogdet')
mut('C07-ccsg-no-conj', 'C07', D + 'complex_circular_symmetric_gaussian.py', "                '...nd,...nd->...n',\n                y.conj(),", "                '...nd,...nd->...n',\n                y,", expect='quadratic-form')
mut('C07-vmf-bessel-order', 'C07', D + 'von_mises_fisher.py', "            + np.log(ive(D / 2 - 1, self.concentration))", "            + np.log(ive(D / 2, self.concentration))", expect='bessel-order')
mut('C07-vmf-lognorm-2pi-sign', 'C07', D + 'von_mises_fisher.py', "            (D / 2) * np.log(2 * np.pi)\n            + np.log(ive", "            -(D / 2) * np.log(2 * np.pi)\n            + np.log(ive", expect='log(2 pi)')
mut('C07-watson-1f1-args', 'C07', D + 'complex_watson.py', "        norm = hyp1f1(1, dimension, scale) * (", "        norm = hyp1f1(1, dimension + 1, scale) * (", expect='hyp1f1')
mut('C07-watson-sphere-area', 'C07', D + 'complex_watson.py', "            2 * np.pi ** dimension / math.factorial(dimension - 1)\n        )\n        return np.log(norm)", "            2 * np.pi ** dimension / math.factorial(dimension)\n        )\n        return np.log(norm)", expect='sphere-area')
mut('C07-watson-dimension-of-norm', 'C07', D + 'complex_watson.py', "        return self.log_norm_1f1(self.concentration, self.mode.shape[-1])", "        return self.log_norm_1f1(self.concentration, self.mode.shape[-2])", expect='arguments')
mut('C07-bingham-conj-dropped', 'C07', D + 'complex_bingham.py', "        result = np.einsum(\"...td,...dD,...tD->...t\", y.conj(), self.covariance, y)", "        result = np.einsum(\"...td,...dD,...tD->...t\", y, self.covariance, y)", expect='quadratic-form')
mut('C07-bingham-norm-axis', 'C07', D + 'complex_bingham.py', "        return 2 * np.pi**D * np.sum(a * np.exp(covariance_eigenvalues), axis=-1)", "        return 2 * np.pi**D * np.sum(a * np.exp(covariance_eigenvalues), axis=0)", expect='normaliser-form')
mut('C07-cacg-covariance-transposed', 'C07', D + 'complex_angular_central_gaussian.py', "            '...wx,...x,...zx->...wz',\n            self.covariance_eigenvectors,\n            self.covariance_eigenvalues,\n            self.covariance_eigenvectors.conj(),\n            optimize='greedy',\n        )\n\n    @property\n    def log_determinant",
    "            '...wx,...x,...zx->...zw',\n            self.covariance_eigenvectors,\n            self.covariance_eigenvalues,\n            self.covariance_eigenvectors.conj(),\n            optimize='greedy',\n        )\n\n    @property\n    def log_determinant", expect=None)
mut('C07-diag-postinit-type', 'C07', D + 'gaussian.py', "            _compute_log_det_cholesky(pc, 'diag', D),", "            _compute_log_det_cholesky(pc, 'spherical', D),", expect='sklearn-helpers')
mut('C07-watson-real-part-only', 'C07', D + 'complex_watson.py', "        result = result.real ** 2 + result.imag ** 2", "        result = result.real ** 2", expect='Im(w^H z)', props=['C07', 'C03'])
mut('C07-cacg-logdet-dropped', 'C07', D + 'complex_angular_central_gaussian.py', "        log_pdf -= self.log_determinant[..., None]\n", "", expect='log det', props=['C07', 'C03'])
mut('C07-gaussian-const-dropped', 'C07', D + 'gaussian.py', "                - 1 / 2 * D * np.log(2 * np.pi)\n                + self.log_det_precision_cholesky[..., None]\n                - 1 / 2 * np.einsum('...nd,...nd->...n', white_x, white_x)\n        )\n\n\n@dataclass\nclass DiagonalGaussian", "                self.log_det_precision_cholesky[..., None]\n                - 1 / 2 * np.einsum('...nd,...nd->...n', white_x, white_x)\n        )\n\n\n@dataclass\nclass DiagonalGaussian", expect='log(2 pi)')
mut('C08-mstep-twice', 'C08', D + 'gmm.py',
    "            model = self._m_step(\n                y,\n                affiliation=affiliation,\n                saliency=saliency,\n                weight_constant_axis=weight_constant_axis,\n                covariance_type=covariance_type,\n                fixed_covariance=fixed_covariance,\n            )\n\n        return model",
    "            model = self._m_step(\n                y,\n                affiliation=affiliation,\n                saliency=saliency,\n                weight_constant_axis=weight_constant_axis,\n                covariance_type=covariance_type,\n                fixed_covariance=fixed_covariance,\n            )\n            if iteration == 0:\n                model = self._m_step(\n                    y,\n                    affiliation=model.predict(y),\n                    saliency=saliency,\n                    weight_constant_axis=weight_constant_axis,\n                    covariance_type=covariance_type,\n                    fixed_covariance=fixed_covariance,\n                )\n\n        return model", expect='R-LOOP')
mut('C08-estep-after-mstep', 'C08', D + 'vmfmm.py',
    "            if model is not None:\n                affiliation = model.predict(y)\n\n            model = self._m_step(\n                y,\n                affiliation=affiliation,\n                saliency=saliency,\n                weight_constant_axis=weight_constant_axis,\n                min_concentration=min_concentration,\n                max_concentration=max_concentration,\n            )\n",
    "            model = self._m_step(\n                y,\n                affiliation=affiliation,\n                saliency=saliency,\n                weight_constant_axis=weight_constant_axis,\n                min_concentration=min_concentration,\n                max_concentration=max_concentration,\n            )\n            if model is not None:\n                affiliation = model.predict(y)\n", expect='R-LOOP')
mut('C08-range-off-by-one', 'C08', D + 'cwmm.py', "        for iteration in range(iterations):\n            if model is not None:\n                affiliation = model.predict(y)", "        for iteration in range(iterations - 1):\n            if model is not None:\n                affiliation = model.predict(y)", expect='range')
mut('C08-estep-every-second', 'C08', D + 'cbmm.py', "            if model is not None:\n                affiliation = model.predict(y, affiliation_eps=affiliation_eps)", "            if model is not None and iteration % 2 == 0:\n                affiliation = model.predict(y, affiliation_eps=affiliation_eps)", expect='e-step-guard')
mut('C08-saliency-dropped-component', 'C08', D + 'vmfmm.py', "            saliency=affiliation * saliency[..., None, :],\n            min_concentration", "            saliency=affiliation,\n            min_concentration", expect='component-weights')
mut('C08-saliency-dropped-weight', 'C08', D + 'cwmm.py', "        weight = estimate_mixture_weight(\n            affiliation=affiliation,\n            saliency=saliency,", "        weight = estimate_mixture_weight(\n            affiliation=affiliation,\n            saliency=None,", expect='weight-update')
mut('C08-wca-not-forwarded', 'C08', D + 'cbmm.py', "            weight_constant_axis=weight_constant_axis,\n        )\n\n        if saliency is None:\n            masked_affiliation = affiliation", "            weight_constant_axis=(-1,),\n        )\n\n        if saliency is None:\n            masked_affiliation = affiliation", expect='weight-update')
mut('C08-fit-predict-swapped-options', 'C08', D + 'vmfmm.py', "            min_concentration=min_concentration,\n            max_concentration=max_concentration,\n            weight_constant_axis=weight_constant_axis,\n        )\n        return model.predict(y)",
    "            min_concentration=max_concentration,\n            max_concentration=min_concentration,\n            weight_constant_axis=weight_constant_axis,\n        )\n        return model.predict(y)", expect='fit_predict-forwarding')
mut('C08-fit-predict-drops-saliency', 'C08', D + 'cwmm.py', "            iterations=iterations,\n            saliency=saliency,\n            weight_constant_axis=weight_constant_axis,\n            affiliation_eps=affiliation_eps,\n            inline_permutation_aligner=inline_permutation_aligner,\n        )\n        return model.predict(y)",
    "            iterations=iterations,\n            weight_constant_axis=weight_constant_axis,\n            affiliation_eps=affiliation_eps,\n            inline_permutation_aligner=inline_permutation_aligner,\n        )\n        return model.predict(y)", expect='fit_predict-forwarding')
mut('C08-affiliation-eps-ignored', 'C08', D + 'gcacgmm.py', "                    inline_permutation_alignment=inline_permutation_alignment,\n                    affiliation_eps=affiliation_eps,\n                )\n\n            model = self._m_step(\n                observation,\n                embedding,\n                quadratic_form,\n                affiliation=affiliation,\n                saliency=saliency,\n                hermitize=hermitize,\n                covariance_norm=covariance_norm,\n                eigenvalue_floor=eigenvalue_floor,\n                covariance_type",
    "                    inline_permutation_alignment=inline_permutation_alignment,\n                )\n\n            model = self._m_step(\n                observation,\n                embedding,\n                quadratic_form,\n                affiliation=affiliation,\n                saliency=saliency,\n                hermitize=hermitize,\n                covariance_norm=covariance_norm,\n                eigenvalue_floor=eigenvalue_floor,\n                covariance_type", expect='affiliation_eps')
mut('C08-watson-scatter-conj-first', 'C08', D + 'complex_watson.py', "                \"...n,...nd,...nD->...dD\", saliency, y, y.conj()", "                \"...n,...nd,...nD->...dD\", saliency, y.conj(), y", expect='conj-second-index')
mut('C08-tyler-weight-product', 'C08', D + 'complex_angular_central_gaussian.py', "            (saliency / quadratic_form),", "            (saliency * quadratic_form),", expect='tyler-weight')
mut('C08-tyler-missing-D', 'C08', D + 'complex_angular_central_gaussian.py', "        covariance = D * np.einsum(\n            '...dn,...Dn,...n->...dD',", "        covariance = np.einsum(\n            '...dn,...Dn,...n->...dD',", expect='tyler-dimension')
mut('C08-vmf-no-clip', 'C08', D + 'von_mises_fisher.py', "        concentration = np.clip(\n            concentration, min_concentration, max_concentration\n        )\n", "        concentration = np.maximum(concentration, min_concentration)\n", expect='clip')
mut('C08-gaussian-weighted-sum-wrong-index', 'C08', D + 'gaussian.py', "            mean = np.einsum(\"...n,...nd->...d\", saliency, y)", "            mean = np.einsum(\"...d,...nd->...d\", saliency, y)", expect='weighted-sum')
mut('C08-inline-weights-axis', 'C08', D + 'gcacgmm.py', "            weight /= np.sum(weight, axis=-2, keepdims=True)", "            weight /= np.sum(weight, axis=-1, keepdims=True)", expect='weight-renormalisation')


# ------------------------------------------------------------------ C10 - C13
BF = 'pb_bss/extraction/beamformer.py'
WR = 'pb_bss/extraction/beamformer_wrapper.py'
mut('D7-psd-asfarray', 'C10', BF, "            mask = np.asarray(mask, dtype=np.float64)", "            mask = np.asfarray(mask)", expect='asfarray')
mut('D8-phase-correction-axis0', 'C13', BF, "        ), axis=-2\n    )\n    return vector", "        ), axis=0\n    )\n    return vector", expect='cumprod')
mut('D9-mvdr-solve-vector-stack', 'C11', BF, "        numerator = solve(noise_psd_matrix, atf_vector[..., None])[..., 0]", "        numerator = solve(noise_psd_matrix, atf_vector)", expect='solve-vector-stack', props=['C11', 'C13'])
mut('C10-psd-conj-first', 'C10', BF, "        psd = np.einsum('...dt,...et->...de', observation, observation.conj())", "        psd = np.einsum('...dt,...et->...de', observation.conj(), observation)", expect='conj-second')
mut('C10-psd-transposed-output', 'C10', BF, "                '...kt,...dt,...et->...kde',", "                '...kt,...dt,...et->...ked',", expect='conj-second')
mut('C10-psd-mask-source-axis', 'C10', BF, "                '...kt,...dt,...et->...kde',", "                '...kt,...dt,...et->...dke',", expect=None)
mut('C10-psd-normalise-wrong-axis', 'C10', BF, "                np.sum(mask, axis=time_dim, keepdims=True),", "                np.sum(mask, axis=source_dim, keepdims=True),", expect='mask-normalisation')
mut('C10-psd-normalise-always', 'C10', BF, "        if normalize:\n            mask /= np.maximum(", "        if True:\n            mask /= np.maximum(", expect='normalize-guard')
mut('C10-psd-no-floor', 'C10', BF, "            mask /= np.maximum(\n                np.sum(mask, axis=time_dim, keepdims=True),\n                1e-10,\n            )", "            mask /= np.sum(mask, axis=time_dim, keepdims=True)", expect='mask-normalisation')
mut('C10-psd-frames-denominator', 'C10', BF, "        psd /= observation.shape[-1]", "        psd /= observation.shape[-2]", expect='frame-count')
mut('C10-psd-roll-guard', 'C10', BF, "            if source_dim < -2:", "            if source_dim < -1:", expect='rollaxis-guard')
mut('C10-condition-trace-axes', 'C10', BF, "    scale = gamma * np.trace(x, axis1=-2, axis2=-1) / x.shape[-1]", "    scale = gamma * np.trace(x, axis1=0, axis2=-1) / x.shape[-1]", expect='trace-axes')
mut('C10-condition-denominator', 'C10', BF, "    return (x + scaled_eye) / (1 + gamma)", "    return (x + scaled_eye) / (1 - gamma)", expect='form')
mut('C11-mvdr-roles-swapped', 'C11', BF, "    phi = stable_solve(noise_psd_matrix, target_psd_matrix)\n    lambda_ = np.trace(phi, axis1=-1, axis2=-2)[..., None, None]\n    if eps is None:", "    phi = stable_solve(target_psd_matrix, noise_psd_matrix)\n    lambda_ = np.trace(phi, axis1=-1, axis2=-2)[..., None, None]\n    if eps is None:", expect='solve-roles')
mut('C11-souden-row-instead-of-column', 'C11', BF, "    beamformer = mat[..., ref_channel]\n", "    beamformer = mat[..., ref_channel, :]\n", expect='column-selection')
mut('C11-wmwf-mu-times-lambda', 'C11', BF, "        filter_ = phi / (distortion_weight + lambda_)", "        filter_ = phi / (distortion_weight * lambda_)", expect='mu-plus-lambda')
mut('C11-ref-channel-argmin', 'C11', BF, "    return np.argmax(SNR.real)", "    return np.argmin(SNR.real)", expect='argmax')
mut('C11-ref-channel-inverted-ratio', 'C11', BF,
    "        '...FdR,...FdD,...FDR->...R', w_mat.conj(), target_psd_matrix, w_mat\n    ) / np.maximum(np.einsum(\n        '...FdR,...FdD,...FDR->...R', w_mat.conj(), noise_psd_matrix, w_mat\n    ), eps)",
    "        '...FdR,...FdD,...FDR->...R', w_mat.conj(), noise_psd_matrix, w_mat\n    ) / np.maximum(np.einsum(\n        '...FdR,...FdD,...FDR->...R', w_mat.conj(), target_psd_matrix, w_mat\n    ), eps)", expect='snr-roles')
mut('C11-mvdr-denominator-no-conj', 'C11', BF, "    denominator = np.einsum('...d,...d->...', atf_vector.conj(), numerator)", "    denominator = np.einsum('...d,...d->...', atf_vector, numerator)", expect='denominator')
mut('C11-wmwf-trace-axes', 'C11', BF, "    phi = stable_solve(noise_psd_matrix, target_psd_matrix)\n    lambda_ = np.trace(phi, axis1=-1, axis2=-2)[..., None, None]\n    if distortion_weight", "    phi = stable_solve(noise_psd_matrix, target_psd_matrix)\n    lambda_ = np.trace(phi, axis1=0, axis2=-2)[..., None, None]\n    if distortion_weight", expect='trace')
mut('C11-lcmv-gram-conj-second', 'C11', BF, "        'k...d,K...d->...kK',\n        atf_vectors.conj(),\n        Phi_inverse_times_H", "        'k...d,K...d->...kK',\n        atf_vectors,\n        Phi_inverse_times_H.conj()", expect='gram')
mut('C12-gev-swapped', 'C12', BF, "                target_psd_matrix[f, :, :], noise_psd_matrix[f, :, :]\n            )", "                noise_psd_matrix[f, :, :], target_psd_matrix[f, :, :]\n            )", expect='eigh-roles')
mut('C12-gev-argmin', 'C12', BF, "        beamforming_vector[f, :] = eigenvecs[:, np.argmax(eigenvals)]", "        beamforming_vector[f, :] = eigenvecs[:, np.argmin(eigenvals)]", expect='argmin')
mut('C12-gev-row', 'C12', BF, "        beamforming_vector[f, :] = eigenvecs[:, np.argmax(eigenvals)]", "        beamforming_vector[f, :] = eigenvecs[np.argmax(eigenvals), :]", expect='eigvec-axis')
mut('C12-pca-first', 'C12', BF, "        beamforming_vector = eigenvecs[..., -1]\n        eigenvalues = eigenvals[..., -1]\n        # Reconstruct original shape\n        beamforming_vector", "        beamforming_vector = eigenvecs[..., 0]\n        eigenvalues = eigenvals[..., 0]\n        # Reconstruct original shape\n        beamforming_vector", expect='index')
mut('C12-rank1-conj-first', 'C12', WR, "    a = get_pca_vector(covariance_matrix, **atf_kwargs)\n\n    # Wang et al. \"Rank-1 Constrained [...]\" Eq. 25 (implicit)\n    cov_rank1 = np.einsum('...d,...D->...dD', a, a.conj())", "    a = get_pca_vector(covariance_matrix, **atf_kwargs)\n\n    # Wang et al. \"Rank-1 Constrained [...]\" Eq. 25 (implicit)\n    cov_rank1 = np.einsum('...d,...D->...dD', a.conj(), a)", expect='conj-second-index')
mut('C12-rank1-scale-inverted', 'C12', WR, "    scale = np.trace(covariance_matrix, axis1=-1, axis2=-2)\n    scale /= np.trace(cov_rank1, axis1=-1, axis2=-2)\n    return scale[..., None, None] * cov_rank1\n\n\ndef _get_gev_atf_vector", "    scale = np.trace(cov_rank1, axis1=-1, axis2=-2)\n    scale /= np.trace(covariance_matrix, axis1=-1, axis2=-2)\n    return scale[..., None, None] * cov_rank1\n\n\ndef _get_gev_atf_vector", expect='trace-rescaling')
mut('C12-gev-atf-row-contraction', 'C12', WR, "    return np.einsum('...dD,...D->...d', noise_covariance_matrix, w)", "    return np.einsum('...Dd,...D->...d', noise_covariance_matrix, w)", expect='matvec')
mut('C12-ban-wrong-chain', 'C12', BF, "        '...a,...ab,...bc,...c->...',\n        vector.conj(), noise_psd_matrix, noise_psd_matrix, vector", "        '...a,...ab,...cb,...c->...',\n        vector.conj(), noise_psd_matrix, noise_psd_matrix, vector", expect='chain')
mut('C12-ban-gain-not-abs', 'C12', BF, "    return vector * np.abs(normalization[..., np.newaxis])", "    return vector * normalization[..., np.newaxis]", expect='gain')
mut('C12-pca-trace-scaling-axis', 'C12', BF, "        ) / np.linalg.norm(eigenvectors, axis=-1)\n        scale = scale[..., None]\n    elif scaling == 'eigenvalue':", "        ) / np.linalg.norm(eigenvectors, axis=0)\n        scale = scale[..., None]\n    elif scaling == 'eigenvalue':", expect='trace-scaling')
mut('C13-wrapper-wrong-primitive', 'C13', WR, "    elif beamformer_core in ['gev', 'rank1_pca+gev', 'rank1_gev+gev']:", "    elif beamformer_core in ['gev', 'rank1_pca+gev']:", expect='R-DISPATCH')
mut('C13-wrapper-rank1-swapped', 'C13', WR, "    if atf_type == 'rank1_pca':\n        return get_pca_rank_one_estimate(target_psd_matrix, **atf_kwargs)\n    elif atf_type == 'rank1_gev':", "    if atf_type == 'rank1_gev':\n        return get_pca_rank_one_estimate(target_psd_matrix, **atf_kwargs)\n    elif atf_type == 'rank1_pca':", expect='R-DISPATCH')
mut('C13-wrapper-ban-uses-target', 'C13', WR, "        beamforming_vector = blind_analytic_normalization(\n            beamforming_vector,\n            noise_psd_matrix\n        )", "        beamforming_vector = blind_analytic_normalization(\n            beamforming_vector,\n            target_psd_matrix\n        )", expect='noise-role')
mut('C13-wrapper-wmwf-ignores-rank1', 'C13', WR, "        beamforming_vector = get_wmwf_vector(\n            target_psd_matrix,\n            noise_psd_matrix,", "        beamforming_vector = get_wmwf_vector(\n            noise_psd_matrix + target_psd_matrix,\n            noise_psd_matrix,", expect='flow')
mut('C13-wrapper-ban-dropped', 'C13', WR, "    if ban:\n        beamforming_vector = blind_analytic_normalization(", "    if ban and noise_psd_matrix is None:\n        beamforming_vector = blind_analytic_normalization(", expect=None)
mut('C13-apply-no-conj', 'C13', BF, "    return np.einsum('...a,...at->...t', vector.conj(), mix)", "    return np.einsum('...a,...at->...t', vector, mix)", expect='structure')
mut('C13-stable-solve-wrong-slice', 'C13', 'pb_bss/math/solve.py', "                C[i], *_ = np.linalg.lstsq(A[i], B[i])\n        return C.reshape(*shape_B)", "                C[i], *_ = np.linalg.lstsq(A[i], B[0])\n        return C.reshape(*shape_B)", expect='index-local')

# ------------------------------------------------------------------ C14 - C16
PA = 'pb_bss/permutation_alignment.py'
MU = D + 'mixture_model_utils.py'
mut('C14-greedy-no-column-retire', 'C14', PA, "                score_matrix[(*f, slice(None), j)] = neg_inf\n", "", expect='retire', props=['C14', 'C15'])
mut('C14-greedy-no-row-retire', 'C14', PA, "                score_matrix[(*f, i, slice(None))] = neg_inf\n", "", expect='retire')
mut('C14-greedy-argmin', 'C14', PA, "                    np.argmax(score_matrix_flat[f], axis=-1),", "                    np.argmin(score_matrix_flat[f], axis=-1),", expect='argmax')
mut('C14-greedy-k-minus-one', 'C14', PA, "            for _ in range(K):\n                # argmax does not support", "            for _ in range(K - 1):\n                # argmax does not support", expect='k-picks')
mut('C14-greedy-flat-copy', 'C14', PA, "        score_matrix_flat = score_matrix.reshape(*F, K*K)", "        score_matrix_flat = score_matrix.copy().reshape(*F, K*K)", expect='view')
mut('C14-greedy-column-to-row', 'C14', PA, "                reverse_permutation[(i, *f)] = j", "                reverse_permutation[(j, *f)] = i", expect='row-to-column', props=['C14', 'C15'])
mut('C14-no-finite-guard', 'C14', PA, "    if not np.all(np.isfinite(score_matrix)):\n        # Exception message copied from scipy.optimize.linear_sum_assignment\n        raise ValueError('score matrix is infeasible')\n", "", expect='finite-guard')
mut('C14-optimal-lt', 'C15', PA, "                if score > best_score:\n                    best_score = score\n                    best_permutation = permutation", "                if score < best_score:\n                    best_score = score\n                    best_permutation = permutation", expect=None, props=['C15', 'C14'])
mut('C14-optimal-partial-enumeration', 'C15', PA, "            for permutation in itertools.permutations(range(K)):", "            for permutation in itertools.permutations(range(K - 1)):", expect='enumeration', props=['C15', 'C14'])
mut('C14-optimal-break', 'C15', PA, "                if score > best_score:\n                    best_score = score\n                    best_permutation = permutation\n", "                if score > best_score:\n                    best_score = score\n                    best_permutation = permutation\n                    if score > 0:\n                        break\n", expect='early-exit', props=['C15', 'C14'])
mut('C14-optimal-unpaired', 'C15', PA, "                if score > best_score:\n                    best_score = score\n                    best_permutation = permutation", "                if score > best_score:\n                    best_permutation = permutation", expect=None, props=['C15', 'C14'])
mut('C14-optimal-init-zero', 'C15', PA, "            best_score = float('-inf')\n            best_permutation = None", "            best_score = 0.\n            best_permutation = None", expect='init', props=['C15', 'C14'])
mut('C14-apply-mapping-wrong-axis', 'C14', PA, "    return mask[mapping, range(F)]", "    return mask[mapping, :][range(F)]", expect='gather')
mut('C14-inline-em-different-mapping', 'C14', MU, "        quadratic_form = aligner.apply_mapping(quadratic_form, mapping)", "        quadratic_form = aligner.apply_mapping(quadratic_form, aligner.calculate_mapping(quadratic_form))", expect='same-mapping')
mut('C14-inline-em-rescale', 'C14', MU, "    affiliation = aligner.apply_mapping(affiliation, mapping)\n    affiliation = np.transpose(affiliation, (1, 0, 2))", "    affiliation = aligner.apply_mapping(affiliation, mapping)\n    affiliation = np.transpose(affiliation, (1, 0, 2)) / np.sum(affiliation, axis=0)[:, None, :]", expect='value-preserving')
mut('C14-inline-pa-ge', 'C14', MU, "            if auxiliary_function_value > best_auxiliary_function_value:", "            if auxiliary_function_value >= best_auxiliary_function_value:", expect='strict')
mut('C14-inline-pa-partial', 'C14', MU, "    permutations = np.asarray(list(itertools.permutations(range(num_classes))))", "    permutations = np.asarray(list(itertools.permutations(range(num_classes))))[1:]", expect=None)
mut('C14-dhtv-identity-start', 'C14', PA, "        mapping = np.repeat(np.arange(K)[:, None], F, axis=1)", "        mapping = np.repeat(np.arange(K)[::-1][:, None], F, axis=1)", expect='identity-start', props=['C14', 'C16'])
mut('C16-dhtv-unpaired', 'C16', PA, "                        mapping[:, f] = mapping[reverse_permutation, f]", "                        mapping[:, f] = reverse_permutation", expect='self-gather', props=['C16', 'C14'])
mut('C16-dhtv-features-not-updated', 'C16', PA, "                        features[:, f, :] = features[reverse_permutation, f, :]\n", "", expect='paired-update', props=['C16', 'C14'])
mut('C16-dhtv-different-bins', 'C16', PA, "                        mapping[:, f] = mapping[reverse_permutation, f]", "                        mapping[:, f] = mapping[reverse_permutation, start]", expect=None, props=['C16', 'C14'])
mut('C16-greedy-chain-raw-predecessor', 'C16', PA, "            mapping[:, f] = mapping[mapping[:, f - 1], f]", "            mapping[:, f] = mapping[mapping[:, 0], f]", expect='composition', props=['C16', 'C14'])
mut('C16-greedy-chain-start', 'C16', PA, "        for f in range(1, F):\n            mapping[:, f]", "        for f in range(2, F):\n            mapping[:, f]", expect='composition', props=['C16', 'C14'])
mut('C16-greedy-no-identity-column', 'C16', PA, "            np.arange(K, dtype=mapping.dtype)[:, None], mapping, axis=-1)", "            mapping[:, :1], mapping, axis=-1)", expect='append-identity', props=['C16', 'C14'])
mut('C15-score-transposed', 'C15', PA, "        score_matrix = np.einsum(\n            'K...T,k...T->...kK',\n            mask.conj(),\n            reference_mask,\n        )", "        score_matrix = np.einsum(\n            'K...T,k...T->...Kk',\n            mask.conj(),\n            reference_mask,\n        )", expect='einsum')
mut('C15-euclidean-no-transpose', 'C15', PA, "            axis=-1\n        )).T\n        return score_matrix", "            axis=-1\n        ))\n        return score_matrix", expect='layout')
mut('C15-oracle-swapped-args', 'C15', PA, "        score_matrix = self.get_score_matrix(mask, reference_mask)", "        score_matrix = self.get_score_matrix(reference_mask, mask)", expect='arguments')
mut('C15-oracle-ignores-algorithm', 'C15', PA, "        mapping = _mapping_from_score_matrix(score_matrix, self.algorithm)\n\n        return mapping", "        mapping = _mapping_from_score_matrix(score_matrix, 'greedy')\n\n        return mapping", expect='assignment')
mut('C16-dhtv-centroid-stale', 'C16', PA, "                time_centroid = np.mean(features[:, start:end, :], axis=1)", "                time_centroid = np.mean(mask[:, start:end, :], axis=1)", expect='centroid')


# ------------------------------------------------------------------ C05 / C06 / C09 / C18 / C19
MM = 'pb_bss/extraction/mask_module.py'
SX = 'pb_bss/evaluation/sxr_module.py'
mut('D5-diag-logdet-not-restored', 'C06', D + 'gaussian.py', "        self.log_det_precision_cholesky = np.reshape(\n            _compute_log_det_cholesky(pc, 'diag', D),\n            self.covariance.shape[:-1]\n        )", "        self.log_det_precision_cholesky = _compute_log_det_cholesky(pc, 'diag', D)", expect='unrestored')
mut('D6-cacg-ones-star', 'C06', D + 'complex_angular_central_gaussian.py', "            quadratic_form = np.ones((*independent, N))", "            quadratic_form = np.ones(*independent, N)", expect='constructor-shape')
mut('D10-quantile-float-dim', 'C18', MM, "        [np.prod(shape[:-len(tmp_axis)], dtype=np.int64),\n         np.prod(shape[-len(tmp_axis):], dtype=np.int64)])", "        [np.prod(shape[:-len(tmp_axis)]), np.prod(shape[-len(tmp_axis):])])", expect='prod-dtype')
mut('D11-output-sxr-prefix-dead', 'C19', SX, "    if return_dict:\n        if return_dict is True:\n            return {'sdr': SDR, 'sir': SIR, 'snr': SNR}\n        elif isinstance(return_dict, str):\n            return {return_dict + 'sdr': SDR,\n                    return_dict + 'sir': SIR,\n                    return_dict + 'snr': SNR}\n        else:\n            raise TypeError(return_dict)\n    else:\n        return ResultTuple(SDR, SIR, SNR)\n\n\ndef output_sxr", "    if return_dict:\n        if return_dict is True:\n            return {'sdr': SDR, 'sir': SIR, 'snr': SNR}\n        elif isinstance(return_dict, str):\n            return {return_dict + 'sdr': SDR,\n                    return_dict + 'sir': SIR,\n                    return_dict + 'snr': SNR}\n        else:\n            raise TypeError(return_dict)\n    else:\n        return ResultTuple(SDR, SIR, SNR)\n\n\ndef output_sxr", expect=None)
C.pop()
mut('D11-output-sxr-prefix-dead', 'C19', SX, "        SNR = np.mean(SNR)\n\n    if return_dict:", "        SNR = np.mean(SNR)\n\n    if return_dict is True:", expect='dict-prefix')
mut('C05-literal-class-index', 'C05', D + 'cwmm.py', "            masked_affiliation = affiliation * saliency[..., None, :]\n\n        complex_watson", "            masked_affiliation = affiliation * saliency[..., None, :]\n            masked_affiliation = masked_affiliation / masked_affiliation[..., 0, :][..., None, :]\n\n        complex_watson", expect='literal-class-index')
mut('C05-first-class-special', 'C05', D + 'mixture_model_utils.py', "    affiliation /= denominator\n\n    # Strictly", "    affiliation /= denominator\n    affiliation[..., 0, :] += 1e-12\n\n    # Strictly", expect=None)
mut('C05-argmax-over-classes', 'C05', D + 'mixture_model_utils.py', "    affiliation = log_pdf - np.amax(log_pdf, axis=-2, keepdims=True)", "    affiliation = log_pdf - np.amax(log_pdf, axis=-2, keepdims=True) - 1e-12 * np.argmax(log_pdf, axis=-2)[..., None, :]", expect='order-sensitive')
mut('C05-loop-over-classes', 'C05', D + 'gmm.py', "        gaussian = GaussianTrainer()._fit(\n            y=x[..., None, :, :],", "        for k in range(affiliation.shape[-2]):\n            pass\n        gaussian = GaussianTrainer()._fit(\n            y=x[..., None, :, :],", expect=None)
mut('C05-no-class-axis', 'C05', D + 'vmfmm.py', "            self.vmf.log_pdf(y[..., None, :, :]),", "            self.vmf.log_pdf(y[..., :, :]),", expect='class-axis')
mut('C06-positive-axis', 'C06', D + 'von_mises_fisher.py', "        r_bar = norm / np.sum(saliency, axis=-1)", "        r_bar = norm / np.sum(saliency, axis=1)", expect='axis')
mut('C06-axisless-mean', 'C06', D + 'mixture_model_utils.py', "        np.sum(affiliation, axis=-2, keepdims=True),\n        np.finfo(affiliation.dtype).tiny,\n    )\n    affiliation /= denominator\n\n    # Strictly", "        np.sum(affiliation, axis=-2, keepdims=True) + 0 * np.sum(affiliation),\n        np.finfo(affiliation.dtype).tiny,\n    )\n    affiliation /= denominator\n\n    # Strictly", expect='axisless', props=['C06'])
mut('C06-get-pca-not-restored', 'C06', 'pb_bss/utils.py', "    beamforming_vector = np.reshape(beamforming_vector, shape[:-1])\n    eigenvalues = np.reshape(eigenvalues, shape[:-2])\n\n    return beamforming_vector, eigenvalues\n\n\ndef get_stft", "    beamforming_vector = np.reshape(beamforming_vector, shape[:-1])\n\n    return beamforming_vector, eigenvalues\n\n\ndef get_stft", expect='unrestored')
mut('C06-gaussian-precision-not-restored', 'C06', D + 'gaussian.py', "        pc = _compute_precision_cholesky(c, 'full')\n        self.precision_cholesky = np.reshape(pc, self.covariance.shape)", "        pc = _compute_precision_cholesky(c, 'full')\n        self.precision_cholesky = pc", expect='unrestored')
mut('C06-bingham-loop-wrong-slice', 'C06', D + 'complex_bingham.py', "            eigenvalues[index] = self.find_eigenvalues_v3(\n                scatter_eigenvalues[index],", "            eigenvalues[index] = self.find_eigenvalues_v3(\n                scatter_eigenvalues[0],", expect='index-local')
mut('C09-vmf-mean-unfloored', 'C09', D + 'von_mises_fisher.py', "        mean = r / np.maximum(norm, np.finfo(y.dtype).tiny)[..., None]", "        mean = r / norm[..., None]", expect='mean')
mut('C09-watson-bounds-error', 'C09', D + 'complex_watson.py', "            bounds_error=False,\n            fill_value=(0, self.max_concentration),", "            bounds_error=False,\n            fill_value='extrapolate',", expect='spline')
mut('C09-cacg-no-floor', 'C09', D + 'complex_angular_central_gaussian.py', "            eigenvals = np.maximum(\n                eigenvals,\n                eigenvalue_floor,\n            )\n        else:", "            eigenvals = eigenvals + 0 * eigenvalue_floor\n        else:", expect='floor')
mut('C09-cacg-max-normalisation-axis', 'C09', D + 'complex_angular_central_gaussian.py', "                np.amax(eigenvals, axis=-1, keepdims=True),\n                np.finfo(eigenvals.dtype).tiny,", "                np.amax(eigenvals, axis=-2, keepdims=True),\n                np.finfo(eigenvals.dtype).tiny,", expect='max-normalisation')
mut('C09-cacg-not-hermitised', 'C09', D + 'complex_angular_central_gaussian.py', "        if hermitize:\n            covariance = force_hermitian(covariance)", "        if hermitize and False:\n            covariance = force_hermitian(covariance)", expect='hermitize')
mut('C09-bingham-bounds-positive', 'C09', D + 'complex_bingham.py', "                bounds=(-max_concentration, -1e-8),", "                bounds=(-max_concentration, 1e-8),", expect='bounds')
mut('C09-bingham-no-floor', 'C09', D + 'complex_bingham.py', "            est = np.maximum(est, -max_concentration)\n", "            est = est + 0.\n", expect='floor')
mut('C09-weights-uniform-wrong', 'C09', D + 'mixture_model_utils.py', "        K = affiliation.shape[-2]\n        return np.full([K, 1], 1/K)\n    elif isinstance", "        K = affiliation.shape[-1]\n        return np.full([K, 1], 1/K)\n    elif isinstance", expect='uniform')
mut('C09-gaussian-mass-unfloored', 'C09', D + 'gaussian.py', "            denominator = np.maximum(\n                np.einsum(\"...n->...\", saliency),\n                np.finfo(y.dtype).tiny\n            )\n            mean = np.einsum(\"...n,...nd->...d\", saliency, y)", "            denominator = np.einsum(\"...n->...\", saliency)\n            mean = np.einsum(\"...n,...nd->...d\", saliency, y)", expect='mass-floor')
mut('C09-force-hermitian-axes', 'C09', D + 'utils.py', "    return (matrix + np.swapaxes(matrix.conj(), -1, -2)) / 2", "    return (matrix + np.swapaxes(matrix.conj(), 0, -1)) / 2", expect='form')
mut('C18-ibm-argmax-fixed-axis', 'C18', MM, "    mask = np.expand_dims(np.argmax(mask, axis=source_axis), source_axis)", "    mask = np.expand_dims(np.argmax(mask, axis=0), source_axis)", expect=None)
mut('C18-ibm-argmin', 'C18', MM, "    mask = np.expand_dims(np.argmax(mask, axis=source_axis), source_axis)", "    mask = np.expand_dims(np.argmin(mask, axis=source_axis), source_axis)", expect=None)
mut('C18-wiener-sum-sensor-axis', 'C18', MM, "    mask = abs_square(signal)\n\n    if sensor_axis is not None:\n        mask = mask.sum(sensor_axis, keepdims=True)\n\n    mask /= mask.sum(source_axis, keepdims=True) + eps", "    mask = abs_square(signal)\n\n    if sensor_axis is not None:\n        mask = mask.sum(sensor_axis, keepdims=True)\n\n    mask /= mask.sum(0, keepdims=True) + eps", expect=None)
mut('C18-irm-no-eps', 'C18', MM, "    mask = np.abs(signal)\n\n    mask /= mask.sum(source_axis, keepdims=True) + eps", "    mask = np.abs(signal)\n\n    mask /= mask.sum(source_axis, keepdims=True)", expect='normalisation')
mut('C18-psm-sin', 'C18', MM, "    mask *= np.cos(theta)", "    mask *= np.sin(theta)", expect='form')
mut('C18-psm-angle-order', 'C18', MM, "    theta = np.angle(signal) - np.angle(observed_signal)", "    theta = np.angle(signal) + np.angle(observed_signal)", expect='form')
mut('C18-icm-keepdims', 'C18', MM, "    observed_signal = np.sum(signal, axis=source_axis, keepdims=True)\n    return signal / observed_signal", "    observed_signal = np.sum(signal, axis=source_axis)\n    return signal / observed_signal", expect='form')
mut('C18-quantile-direction', 'C18', MM, "            mask[i, :] = signal[i, :] > threshold[i]\n        else:\n            mask[i, :] = signal[i, :] < threshold[i]", "            mask[i, :] = signal[i, :] < threshold[i]\n        else:\n            mask[i, :] = signal[i, :] > threshold[i]", expect='direction')
mut('C18-lorenz-restore-axes', 'C18', MM, "    mask = np.moveaxis(mask.reshape(shape), tmp_axis, axis)\n\n    if sensor_axis is not None and not keepdims:", "    mask = np.moveaxis(mask.reshape(shape), axis, tmp_axis)\n\n    if sensor_axis is not None and not keepdims:", expect='restore')
mut('C18-lorenz-levels', 'C18', MM, "    mask = 0.5 + weight * (mask - 0.5)\n\n    # Reverts", "    mask = 0.5 + weight * (mask - 1.0)\n\n    # Reverts", expect='levels')
mut('C18-mask-mutates-input', 'C18', MM, "    signal = np.asarray(signal)\n    assert sensor_axis is None, \"\"\"\nHow to handle sensor_axis is not defined.\nPossible ways to handle it:\n    signal = signal.abs().sum(sensor_axis)  # problem, because signal is real\n    signal = signal.sum(sensor_axis)\n    signal = (signal**2).abs().sum(sensor_axis).sqrt()  # problem, because signal is real\nBut this destroys the signal, which is complex.\n\"\"\"\n\n    observed_signal = np.sum(signal, axis=source_axis, keepdims=True)\n    return signal / observed_signal",
    "    signal = np.asarray(signal)\n    assert sensor_axis is None, \"\"\"\nHow to handle sensor_axis is not defined.\nPossible ways to handle it:\n    signal = signal.abs().sum(sensor_axis)  # problem, because signal is real\n    signal = signal.sum(sensor_axis)\n    signal = (signal**2).abs().sum(sensor_axis).sqrt()  # problem, because signal is real\nBut this destroys the signal, which is complex.\n\"\"\"\n\n    observed_signal = np.sum(signal, axis=source_axis, keepdims=True)\n    signal /= observed_signal\n    return signal", expect='R-MUT', props=['C18', 'C20'])
mut('C19-sdr-denominator', 'C19', SX, "    SDR = _sxr(S, I + N)\n    SIR = _sxr(S, I)\n    SNR = _sxr(S, N)\n\n    if average_sources:\n        SDR = np.mean(SDR, axis=0)", "    SDR = _sxr(S, I + I)\n    SIR = _sxr(S, I)\n    SNR = _sxr(S, N)\n\n    if average_sources:\n        SDR = np.mean(SDR, axis=0)", expect='power-decomposition')
mut('C19-sir-snr-swapped', 'C19', SX, "    SDR = _sxr(SS, II + NN)\n    SIR = _sxr(SS, II)\n    SNR = _sxr(SS, NN)", "    SDR = _sxr(SS, II)\n    SIR = _sxr(SS, II + NN)\n    SNR = _sxr(SS, NN)", expect='order')
mut('C19-self-leak-input', 'C19', SX, "                S[[n for n in range(K) if n != k], d],", "                S[[n for n in range(K) if n != d], d],", expect='exclusion')
mut('C19-self-leak-output', 'C19', SX, "            np.delete(S[:, selection[k_source]], k_source, axis=0)", "            np.delete(S[:, selection[k_source]], 0, axis=0)", expect='exclusion')
mut('C19-output-argmin', 'C19', SX, "    max_idx = np.argmax(mutual_power)", "    max_idx = np.argmin(mutual_power)", expect='argmax')
mut('C19-output-partial-enumeration', 'C19', SX, "        list(itertools.permutations(range(K_target), r=K_source))\n    )\n    assert", "        list(itertools.permutations(range(K_source), r=K_source))\n    )\n    assert", expect='enumeration')
mut('C19-sisdr-axis', 'C19', 'pb_bss/evaluation/module_si_sdr.py', "    reference_energy = np.sum(reference ** 2, axis=-1, keepdims=True)", "    reference_energy = np.sum(reference ** 2, axis=0, keepdims=True)", expect='axis')
mut('C19-sisdr-noise-form', 'C19', 'pb_bss/evaluation/module_si_sdr.py', "    noise = estimation - projection", "    noise = estimation - reference", expect='projection')
mut('C19-setsnr-exponent', 'C19', SX, "    factor = 10 ** (-(snr - current_snr) / 20)", "    factor = 10 ** (-(snr - current_snr) / 10)", expect='factor')
mut('C19-input-keys', 'C19', SX, "            return {return_dict + 'sdr': SDR,\n                    return_dict + 'sir': SIR,\n                    return_dict + 'snr': SNR}\n        else:\n            raise TypeError(return_dict)\n    else:\n        return ResultTuple(SDR, SIR, SNR)\n\n\ndef output_sxr", "            return {return_dict + 'sdr': SDR,\n                    return_dict + 'sir': SIR,\n                    'snr': SNR}\n        else:\n            raise TypeError(return_dict)\n    else:\n        return ResultTuple(SDR, SIR, SNR)\n\n\ndef output_sxr", expect='keys')

# ------------------------------------------------------------------ neutral variants (must stay silent)
neu('N-rename-affiliation-local', ALLP, [(D + 'mixture_model_utils.py', "    denominator = np.maximum(\n        np.sum(affiliation, axis=-2, keepdims=True),\n        np.finfo(affiliation.dtype).tiny,\n    )\n    affiliation /= denominator\n",
     "    norm_const = np.maximum(\n        np.sum(affiliation, axis=-2, keepdims=True),\n        np.finfo(affiliation.dtype).tiny,\n    )\n    affiliation /= norm_const\n", False)])
neu('N-posterior-out-of-place', ALLP, [(D + 'mixture_model_utils.py', "    # Weight multiplied not in log domain to avoid logarithm of zero.\n    affiliation *= weight\n",
     "    # Weight multiplied not in log domain to avoid logarithm of zero.\n    affiliation = weight * affiliation\n", False)])
neu('N-cwmm-predict-uses-normalize-observation', ALLP, [(D + 'cwmm.py',
     "        y = y / np.maximum(\n            np.linalg.norm(y, axis=-1, keepdims=True), np.finfo(y.dtype).tiny\n        )\n        return self._predict(y)",
     "        y = normalize_observation(y)\n        return self._predict(y)", False)])
neu('N-watson-normalize-where-style', ALLP, [(D + 'complex_watson.py',
     "    return observation / np.maximum(\n        np.linalg.norm(observation, axis=-1, keepdims=True),\n        np.finfo(observation.dtype).tiny,\n    )",
     "    norm = np.linalg.norm(observation, axis=-1, keepdims=True)\n    return observation / np.where(norm == 0, 1., norm)", False)])
neu('N-reformat-shift-lines', ALLP, [(D + 'cacgmm.py', "from operator import xor\n", "from operator import xor\n\n\n# reformatted: line numbers move\n\n", False),
                                                       (D + 'mixture_model_utils.py', "import itertools\n", "import itertools\n\n\n\n", False)])
neu('N-hoist-temporary', ALLP, [(D + 'cacgmm.py',
     "        log_pdf, quadratic_form = self.cacg._log_pdf(y[..., None, :, :])\n",
     "        y_with_class_axis = y[..., None, :, :]\n        cacg_result = self.cacg._log_pdf(y_with_class_axis)\n        log_pdf, quadratic_form = cacg_result\n", False)])
neu('N-rename-einsum-letters', ALLP, [(D + 'complex_watson.py', '"...n,...nd,...nD->...dD", saliency, y, y.conj()', '"...t,...ta,...tb->...ab", saliency, y, y.conj()', False),
                                       (D + 'gaussian.py', "            '...Dd,...nD->...nd',", "            '...ji,...tj->...ti',", False)])
neu('N-einsum-operand-order', ALLP, [(D + 'complex_angular_central_gaussian.py', "            '...wx,...x,...zx->...wz',\n            self.covariance_eigenvectors,\n            self.covariance_eigenvalues,\n            self.covariance_eigenvectors.conj(),",
                                      "            '...x,...wx,...zx->...wz',\n            self.covariance_eigenvalues,\n            self.covariance_eigenvectors,\n            self.covariance_eigenvectors.conj(),", False)])
neu('N-cacg-logpdf-commuted-product', ALLP, [(D + 'complex_angular_central_gaussian.py', "        log_pdf = -D * np.log(quadratic_form)", "        log_pdf = np.log(quadratic_form) * (-D)", False)])
neu('N-watson-logpdf-one-expression', ALLP, [(D + 'complex_watson.py', "        result *= self.concentration[..., None]\n        result -= self.log_norm()[..., None]\n        return result",
                                              "        return self.concentration[..., None] * result - self.log_norm()[..., None]", False)])
neu('N-loop-variable-renamed', ALLP, [(D + 'gmm.py', "        for iteration in range(iterations):\n            if model is not None:\n                affiliation = model.predict(y)\n\n            model = self._m_step(\n                y,\n                affiliation=affiliation,",
                                       "        for it in range(iterations):\n            if model is not None:\n                posterior = model.predict(y)\n                affiliation = posterior\n\n            model = self._m_step(\n                y,\n                affiliation=affiliation,", False)])
neu('N-mstep-saliency-hoisted', ALLP, [(D + 'vmfmm.py', "            saliency=affiliation * saliency[..., None, :],\n            min_concentration", "            saliency=saliency[..., None, :] * affiliation,\n            min_concentration", False)])
neu('N-psd-rename-letters', ALLP, [('pb_bss/extraction/beamformer.py', "                '...kt,...dt,...et->...kde',", "                '...sn,...an,...bn->...sab',", False)])
neu('N-mvdr-conj-other-side', ALLP, [('pb_bss/extraction/beamformer.py', "    denominator = np.einsum('...d,...d->...', atf_vector.conj(), numerator)", "    denominator = np.einsum('...d,...d->...', numerator.conj(), atf_vector)", False)])
neu('N-greedy-retire-order', ALLP, [('pb_bss/permutation_alignment.py', "                score_matrix[(*f, i, slice(None))] = neg_inf\n                score_matrix[(*f, slice(None), j)] = neg_inf\n", "                score_matrix[(*f, slice(None), j)] = neg_inf\n                score_matrix[(*f, i, slice(None))] = neg_inf\n", False)])
neu('N-optimal-rename', ALLP, [('pb_bss/permutation_alignment.py', "            for permutation in itertools.permutations(range(K)):\n                score = sum(score_matrix[(*f, range(K), permutation)])\n                if score > best_score:\n                    best_score = score\n                    best_permutation = permutation\n            mapping[(slice(None), *f)] = best_permutation",
                                 "            for perm in itertools.permutations(range(K)):\n                total = sum(score_matrix[(*f, range(K), perm)])\n                if total > best_score:\n                    best_permutation = perm\n                    best_score = total\n            mapping[(slice(None), *f)] = best_permutation", False)])
neu('N-wrapper-reordered-branches', ALLP, [('pb_bss/extraction/beamformer_wrapper.py', "    if atf_type == 'rank1_pca':\n        return get_pca_rank_one_estimate(target_psd_matrix, **atf_kwargs)\n    elif atf_type == 'rank1_gev':\n        return get_gev_rank_one_estimate(\n            target_psd_matrix, noise_psd_matrix, **atf_kwargs)",
                                             "    if atf_type == 'rank1_gev':\n        return get_gev_rank_one_estimate(\n            target_psd_matrix, noise_psd_matrix, **atf_kwargs)\n    elif atf_type == 'rank1_pca':\n        return get_pca_rank_one_estimate(target_psd_matrix, **atf_kwargs)", False)])
neu('N-phase-correction-copy-method', ALLP, [('pb_bss/extraction/beamformer.py', "    vector = np.array(vector, copy=True)", "    vector = np.asarray(vector).copy()", False)])
neu('N-mask-axis-keyword', ALLP, [('pb_bss/extraction/mask_module.py', "    mask /= mask.sum(source_axis, keepdims=True) + eps\n\n    if sensor_axis is not None and not keepdims:", "    mask /= np.sum(mask, axis=source_axis, keepdims=True) + eps\n\n    if sensor_axis is not None and not keepdims:", False)])
neu('N-sxr-rename-powers', ALLP, [('pb_bss/evaluation/sxr_module.py', "    SDR = _sxr(SS, II + NN)\n    SIR = _sxr(SS, II)\n    SNR = _sxr(SS, NN)", "    SDR = _sxr(SS, NN + II)\n    SIR = _sxr(SS, II)\n    SNR = _sxr(SS, NN)", False)])
neu('N-gaussian-postinit-temp', ALLP, [(D + 'gaussian.py', "        self.log_det_precision_cholesky = np.reshape(\n            _compute_log_det_cholesky(pc, 'full', D),\n            self.covariance.shape[:-2]\n        )", "        flat_log_det = _compute_log_det_cholesky(pc, 'full', D)\n        leading = self.covariance.shape[:-2]\n        self.log_det_precision_cholesky = np.reshape(flat_log_det, leading)", False)])
neu('N-vmf-clip-keywords', ALLP, [(D + 'von_mises_fisher.py', "        concentration = np.clip(\n            concentration, min_concentration, max_concentration\n        )", "        concentration = np.clip(concentration, a_min=min_concentration, a_max=max_concentration)", False)])
neu('N-sxr-rename-locals', ALLP, [('pb_bss/evaluation/sxr_module.py', "K_source", "n_src", True), ('pb_bss/evaluation/sxr_module.py', "all_target_selections", "picks", True),
                                   ('pb_bss/evaluation/sxr_module.py', "k_source", "i_src", True), ('pb_bss/evaluation/sxr_module.py', "max_idx", "best", True)])
neu('N-input-sxr-rename', ALLP, [('pb_bss/evaluation/sxr_module.py', "                S[[n for n in range(K) if n != k], d],", "                S[[j for j in range(K) if k != j], d],", False)])
neu('N-unsqueeze-rename', ALLP, [('pb_bss/utils.py', "future_ndim", "rank_after", True)])
neu('N-add-unrelated-public-function', ALLP, [('pb_bss/extraction/mask_module.py', "def biased_binary_mask(", "def mask_energy(mask):\n    \"\"\"Sum of squares (new helper).\"\"\"\n    mask = np.asarray(mask)\n    return np.sum(mask ** 2)\n\n\ndef biased_binary_mask(", False)])
neu('N-psd-copy-via-array', ALLP, [('pb_bss/extraction/beamformer.py', "        mask = np.copy(mask)\n", "        mask = np.array(mask, copy=True)\n", False)])
neu('N-gcacgmm-commute-streams', ALLP, [(D + 'gcacgmm.py',
     "                    self.spatial_weight * cacg_log_pdf\n                    + self.spectral_weight * gaussian_log_pdf\n",
     "                    gaussian_log_pdf * self.spectral_weight\n                    + cacg_log_pdf * self.spatial_weight\n", False)])
neu('N-cacg-normalize-inline', ALLP, [(D + 'complex_angular_central_gaussian.py',
     "    observation = _unit_norm(\n        observation,\n        axis=-1,\n        eps=np.finfo(observation.dtype).tiny,\n        eps_style='where',\n    )\n",
     "    observation = observation / np.maximum(\n        np.linalg.norm(observation, axis=-1, keepdims=True),\n        np.finfo(observation.dtype).tiny,\n    )\n", False)])


# ---- second batch of neutral refactors (behaviour preserving)
neu('N2-psd-normalise-out-of-place', ALLP, [('pb_bss/extraction/beamformer.py', "            mask /= np.maximum(\n                np.sum(mask, axis=time_dim, keepdims=True),\n                1e-10,\n            )", "            mask = mask / np.maximum(\n                np.sum(mask, axis=time_dim, keepdims=True),\n                1e-10,\n            )", False)])
neu('N2-psd-frames-out-of-place', ALLP, [('pb_bss/extraction/beamformer.py', "        psd /= observation.shape[-1]", "        psd = psd / observation.shape[-1]", False)])
neu('N2-cacg-floor-with-clip', ALLP, [(D + 'complex_angular_central_gaussian.py', "            eigenvals = np.maximum(\n                eigenvals,\n                eigenvalue_floor,\n            )\n        else:", "            eigenvals = np.clip(eigenvals, eigenvalue_floor, None)\n        else:", False)])
neu('N2-vmf-mean-two-steps', ALLP, [(D + 'von_mises_fisher.py', "        mean = r / np.maximum(norm, np.finfo(y.dtype).tiny)[..., None]", "        safe_norm = np.maximum(norm, np.finfo(y.dtype).tiny)\n        mean = r / safe_norm[..., None]", False)])
neu('N2-watson-fit-out-of-place-division', ALLP, [(D + 'complex_watson.py', "        covariance /= denominator\n        mode, eigenvalues = get_pca(covariance)", "        covariance = covariance / denominator\n        mode, eigenvalues = get_pca(covariance)", False)])
neu('N2-posterior-exp-out-of-place', ALLP, [(D + 'mixture_model_utils.py', "    np.exp(affiliation, out=affiliation)\n\n    # Weight multiplied", "    affiliation = np.exp(affiliation)\n\n    # Weight multiplied", False)])
neu('N2-posterior-max-keyword', ALLP, [(D + 'mixture_model_utils.py', "    affiliation = log_pdf - np.amax(log_pdf, axis=-2, keepdims=True)", "    shift = np.max(log_pdf, axis=-2, keepdims=True)\n    affiliation = log_pdf - shift", False)])
neu('N2-mstep-masked-affiliation-inline', ALLP, [(D + 'cwmm.py', "        if saliency is None:\n            masked_affiliation = affiliation\n        else:\n            masked_affiliation = affiliation * saliency[..., None, :]\n\n        complex_watson = self.complex_watson_trainer._fit(\n            y=y[..., None, :, :],\n            saliency=masked_affiliation,\n        )",
                                               "        complex_watson = self.complex_watson_trainer._fit(\n            y=y[..., None, :, :],\n            saliency=affiliation if saliency is None else affiliation * saliency[..., None, :],\n        )", False)])
neu('N2-souden-named-temporaries', ALLP, [('pb_bss/extraction/beamformer.py', "    phi = stable_solve(noise_psd_matrix, target_psd_matrix)\n    lambda_ = np.trace(phi, axis1=-1, axis2=-2)[..., None, None]\n    if eps is None:", "    noise, target = noise_psd_matrix, target_psd_matrix\n    phi = stable_solve(noise, target)\n    lambda_ = np.trace(phi, axis1=-2, axis2=-1)[..., None, None]\n    if eps is None:", False)])
neu('N2-ban-divide-equivalent', ALLP, [('pb_bss/extraction/beamformer.py', "    return vector * np.abs(normalization[..., np.newaxis])", "    gain = np.abs(normalization[..., None])\n    return vector * gain", False)])
neu('N2-mask-sum-keyword-axis', ALLP, [('pb_bss/extraction/mask_module.py', "    observed_signal = np.sum(signal, axis=source_axis, keepdims=True)\n    return signal / observed_signal", "    mixture = signal.sum(axis=source_axis, keepdims=True)\n    return signal / mixture", False)])
neu('N2-sxr-sdr-last', ALLP, [('pb_bss/evaluation/sxr_module.py', "    SDR = _sxr(S, I + N)\n    SIR = _sxr(S, I)\n    SNR = _sxr(S, N)\n\n    if average_sources:\n        SDR = np.mean(SDR, axis=0)", "    SIR = _sxr(S, I)\n    SNR = _sxr(S, N)\n    SDR = _sxr(S, I + N)\n\n    if average_sources:\n        SDR = np.mean(SDR, axis=0)", False)])
neu('N2-dhtv-copy-via-array', ALLP, [('pb_bss/permutation_alignment.py', "            features = mask.copy()", "            features = np.array(mask, copy=True)", False)])
neu('N2-greedy-loop-variable', ALLP, [('pb_bss/permutation_alignment.py', "            for _ in range(K):\n                # argmax does not support", "            for pick in range(K):\n                # argmax does not support", False)])
neu('N2-gaussian-whiten-swap-operands', ALLP, [(D + 'gaussian.py', "            '...Dd,...nD->...nd',\n            self.precision_cholesky,\n            difference\n        )", "            '...nD,...Dd->...nd',\n            difference,\n            self.precision_cholesky\n        )", False)])
neu('N2-weights-mean-positional', ALLP, [(D + 'mixture_model_utils.py', "        weight = np.mean(\n            affiliation, axis=weight_constant_axis, keepdims=True\n        )\n    else:\n        masked_affiliation = affiliation * saliency[..., None, :]\n        weight = _unit_norm(", "        weight = np.mean(affiliation, weight_constant_axis, keepdims=True)\n    else:\n        masked_affiliation = affiliation * saliency[..., None, :]\n        weight = _unit_norm(", False)])
neu('N2-fit-predict-keyword-order', ALLP, [(D + 'cwmm.py', "            iterations=iterations,\n            saliency=saliency,\n            weight_constant_axis=weight_constant_axis,\n            affiliation_eps=affiliation_eps,\n            inline_permutation_aligner=inline_permutation_aligner,\n        )\n        return model.predict(y)", "            saliency=saliency,\n            iterations=iterations,\n            affiliation_eps=affiliation_eps,\n            weight_constant_axis=weight_constant_axis,\n            inline_permutation_aligner=inline_permutation_aligner,\n        )\n        return model.predict(y)", False)])
neu('N2-si-sdr-temporaries', ALLP, [('pb_bss/evaluation/module_si_sdr.py', "    ratio = np.sum(projection ** 2, axis=-1) / np.sum(noise ** 2, axis=-1)\n    return 10 * np.log10(ratio)", "    target_energy = np.sum(projection ** 2, axis=-1)\n    residual_energy = np.sum(noise ** 2, axis=-1)\n    return 10 * np.log10(target_energy / residual_energy)", False)])

out = pathlib.Path(__file__).resolve().parent.parent / 'pbv' / 'selftest_corpus.json'
# ---- R-OPT positive examples (the rule's instance count on the reference tree is zero)
mut('C18-sensor-axis-truthiness', 'C18', 'pb_bss/extraction/mask_module.py', "    if sensor_axis is not None and not keepdims:\n", "    if sensor_axis and not keepdims:\n", expect='truthiness', props=['C18'])
mut('C19-current-snr-truthiness', 'C19', 'pb_bss/evaluation/sxr_module.py', "    if current_snr is None:", "    if not current_snr:", expect='truthiness', props=['C19'])
mut('C13-ref-channel-or-default', 'C13', 'pb_bss/extraction/beamformer.py', "        if reference_channel is None:\n            reference_channel = get_optimal_reference_channel(", "        if not reference_channel:\n            reference_channel = get_optimal_reference_channel(", expect='truthiness', props=['C13'])
mut('C08-num-classes-truthiness', 'C08', D + 'gmm.py', "        if initialization is None and num_classes is not None:", "        if initialization is None and num_classes:", expect='truthiness', props=['C08'])
# ---- R-USE positive example: an option that is accepted and dropped
mut('C08-eigenvalue-floor-dropped', 'C08', D + 'cacgmm.py', "            hermitize=hermitize,\n            covariance_norm=covariance_norm,\n            eigenvalue_floor=eigenvalue_floor,\n        )\n        return CACGMM",
    "            hermitize=hermitize,\n            covariance_norm=covariance_norm,\n        )\n        return CACGMM", expect='unused', props=['C08'])
# ---- R-ARGNAME / R-STALE positive examples
mut('C13-refchannel-target-noise-crossed', 'C13', 'pb_bss/extraction/beamformer.py', "            mat, target_psd_matrix, noise_psd_matrix, eps=eps)", "            mat, noise_psd_matrix, target_psd_matrix, eps=eps)", expect='R-ARGNAME', props=['C13', 'C11'])
# ---- the precision Cholesky factor computed with numpy in the scikit-learn convention (upper factor) is equivalent; the lower factor paired with the
#      column contraction is equivalent as well
neu('N5-gaussian-numpy-upper-factor', ALLP, [(D + 'gaussian.py', "        pc = _compute_precision_cholesky(c, 'full')\n        self.precision_cholesky = np.reshape(pc, self.covariance.shape)",
    "        pc = np.swapaxes(np.linalg.inv(np.linalg.cholesky(c)), -1, -2)\n        self.precision_cholesky = np.reshape(pc, self.covariance.shape)", False)])
neu('N5-gaussian-lower-factor-column-contraction', ALLP, [
    (D + 'gaussian.py', "        pc = _compute_precision_cholesky(c, 'full')\n        self.precision_cholesky = np.reshape(pc, self.covariance.shape)",
     "        pc = np.linalg.inv(np.linalg.cholesky(c))\n        self.precision_cholesky = np.reshape(pc, self.covariance.shape)", False),
    (D + 'gaussian.py', "            '...Dd,...nD->...nd',", "            '...dD,...nD->...nd',", False)])
# ---- R-NONE positive examples: a flipped None test sends None into arithmetic on the branch no test takes
mut('C08-gaussian-saliency-none-flipped', 'C08', D + 'gaussian.py', "        if saliency is None:\n            covariance = np.einsum(operation, difference, difference)", "        if saliency is not None:\n            covariance = np.einsum(operation, difference, difference)", expect='R-NONE', props=['C08'])
mut('C01-difference-plus-mean', 'C07', D + 'gaussian.py', "        difference = y - self.mean[..., None, :]", "        difference = y + self.mean[..., None, :]", expect='difference', props=['C07', 'C03'])
# ---- rules added after the second half of seed round 4: one mutant and one neutral respelling each
PA = 'pb_bss/permutation_alignment.py'
mut('C14-greedy-np-copy-keeps-layout', 'C14', PA, "        score_matrix: np.ndarray = score_matrix.copy()\n", "        score_matrix: np.ndarray = np.copy(score_matrix)\n", expect='view-contiguous', props=['C14', 'C15'],
    note="np.copy defaults to order='K': the transposed euclidean score matrix stays Fortran ordered and the reshape copies")
neu('N7-greedy-copy-order-c', ALLP, [(PA, "        score_matrix: np.ndarray = score_matrix.copy()\n", "        score_matrix = np.array(score_matrix, order='C', copy=True)\n", False)])
mut('C15-cos-floor-1e-10', 'C15', PA, "    tiny = np.finfo(norm.dtype).tiny\n    return a / np.maximum(norm, tiny)", "    return a / np.maximum(norm, 1e-10)", expect='scale-free', props=['C15'])
mut('C15-cos-plus-eps', 'C15', PA, "    tiny = np.finfo(norm.dtype).tiny\n    return a / np.maximum(norm, tiny)", "    tiny = np.finfo(norm.dtype).tiny\n    return a / (norm + tiny)", expect='scale-free', props=['C15'])
neu('N7-cos-where-floor', ALLP, [(PA, "    return a / np.maximum(norm, tiny)", "    return a / np.where(norm != 0, norm, tiny)", False)])
MM = 'pb_bss/extraction/mask_module.py'
mut('C18-eps-below-float32', 'C18', MM, "EPS = 1e-18\n", "EPS = 1e-40\n", expect='eps-default-float32', props=['C18'])
neu('N7-eps-spelled-differently', ALLP, [(MM, "EPS = 1e-18\n", "EPS = 1.0e-18\n", False)])
neu('N7-eps-float32-tiny', ALLP, [(MM, "EPS = 1e-18\n", "EPS = float(np.finfo(np.float32).tiny)\n", False)], note='a different but admissible guard: positive in every float type')
SX = 'pb_bss/evaluation/sxr_module.py'
mut('C19-pool-over-sources', 'C19', SX, "        S, I, N = [np.mean(power, axis=-1) for power in (S, I, N)]", "        S, I, N = [np.mean(power, axis=0) for power in (S, I, N)]", expect='pooled-before-ratio', props=['C19'])
neu('N7-pool-method-form', ALLP, [(SX, "        S, I, N = [np.mean(power, axis=-1) for power in (S, I, N)]", "        S = S.mean(axis=-1)\n        I = np.mean(I, -1)\n        N = N.mean(-1)", False)])
BG = D + 'complex_bingham.py'
mut('C07-bingham-gap-relative-to-smallest', 'C07', BG, "        diff = np.maximum(diff, eps)\n", "        diff = np.maximum(diff, eps * np.abs(covariance_eigenvalues[..., :1]))\n", expect='absolute-gap', props=['C07', 'C03'])
neu('N7-bingham-gap-clip', ALLP, [(BG, "        diff = np.maximum(diff, eps)\n", "        diff = np.clip(diff, eps, None)\n", False)])
# ---- blind spots found by the first-order mutation survey (tools/mutate.py): each was unreported AND invisible to the pinned tests
BF = 'pb_bss/extraction/beamformer.py'
mut('C08-watson-scatter-without-conj', 'C08', D + 'complex_watson.py', '"...nd,...nD->...dD", y, y.conj()', '"...nd,...nD->...dD", y, y', expect='hermitian-scatter', props=['C08'])
mut('C08-bingham-weighted-scatter-without-conj', 'C08', D + 'complex_bingham.py', '"...n,...nd,...nD->...dD", saliency, y, y.conj()', '"...n,...nd,...nD->...dD", saliency, y, y', expect='hermitian-scatter', props=['C08'])
mut('C08-default-saliency-zeros', 'C08', D + 'cbmm.py', "            saliency = np.ones_like(initialization[..., 0, :])", "            saliency = np.zeros_like(initialization[..., 0, :])", expect='default-saliency', props=['C08'])
mut('C08-default-saliency-test-flipped', 'C08', D + 'cwmm.py', "        if saliency is None:\n            saliency = np.ones_like", "        if saliency is not None:\n            saliency = np.ones_like", expect='default-saliency', props=['C08'])
mut('C08-vmf-resultant-times-mass', 'C08', D + 'von_mises_fisher.py', "r_bar = norm / np.sum(saliency, axis=-1)", "r_bar = norm * np.sum(saliency, axis=-1)", expect='resultant-length', props=['C08'])
mut('C08-vmf-concentration-sign', 'C08', D + 'von_mises_fisher.py', "(r_bar * D - r_bar ** 3) / (1 - r_bar ** 2)", "(r_bar * D + r_bar ** 3) / (1 - r_bar ** 2)", expect='banerjee', props=['C08'])
mut('C08-vmf-dimension-first-axis', 'C08', D + 'von_mises_fisher.py', "        D = y.shape[-1]\n\n        if saliency is None:", "        D = y.shape[0]\n\n        if saliency is None:", expect='banerjee', props=['C08'])
neu('N9-vmf-concentration-factored', ALLP, [(D + 'von_mises_fisher.py', "(r_bar * D - r_bar ** 3) / (1 - r_bar ** 2)", "r_bar * (D - r_bar * r_bar) / (1 - np.square(r_bar))", False)])
mut('C07-watson-normaliser-divided', 'C07', D + 'complex_watson.py', "norm = hyp1f1(1, dimension, scale) * (", "norm = hyp1f1(1, dimension, scale) / (", expect='sphere-area', props=['C07', 'C03'])
neu('N9-watson-normaliser-rearranged', ALLP, [(D + 'complex_watson.py', "        norm = hyp1f1(1, dimension, scale) * (\n            2 * np.pi ** dimension / math.factorial(dimension - 1)\n        )",
                                                "        area = 2 * np.pi ** dimension\n        norm = area * hyp1f1(1, dimension, scale) / math.factorial(dimension - 1)", False)])
mut('C20-dimension-first-axis', 'C20', D + 'cbmm.py', "            self.dimension = y.shape[-1]", "            self.dimension = y.shape[0]", expect='dimension-is-last-axis', props=['C20'])
mut('C09-floor-relative-to-smallest', 'C09', D + 'complex_angular_central_gaussian.py', "                np.amax(eigenvals, axis=-1, keepdims=True) * eigenvalue_floor,", "                np.amin(eigenvals, axis=-1, keepdims=True) * eigenvalue_floor,",
    expect='floor-relative-to-max', props=['C09'])
mut('C13-phase-correction-cumsum', 'C13', BF, "    vector[..., 1:, :] *= np.cumprod(", "    vector[..., 1:, :] *= np.cumsum(", expect='accumulation', props=['C13'])
mut('C13-phase-correction-no-conj', 'C13', BF, "vector[..., 1:, :].conj() * vector[..., :-1, :]", "vector[..., 1:, :] * vector[..., :-1, :]", expect='inter-bin-phase', props=['C13'])
mut('C13-phase-correction-sum-over-bins', 'C13', BF, "                    axis=-1, keepdims=True\n                )\n            )\n        ), axis=-2", "                    axis=-2, keepdims=True\n                )\n            )\n        ), axis=-2",
    expect='inter-bin-phase', props=['C13'])
mut('C13-phase-correction-wrong-direction', 'C13', BF, "            1j * np.angle(", "            -1j * np.angle(", expect='inter-bin-phase', props=['C13'])
neu('N9-phase-correction-operands-swapped', ALLP, [(BF, "vector[..., 1:, :].conj() * vector[..., :-1, :]", "vector[..., :-1, :] * np.conj(vector[..., 1:, :])", False)])
mut('C11-wmwf-selection-vector-row', 'C11', BF, "        return np.sum(projected, axis=-1)", "        return np.sum(projected, axis=-2)", expect='selection-vector', props=['C11'])
mut('C12-ban-denominator-phase', 'C12', BF, "denominator = np.sqrt(denominator * denominator.conj())", "denominator = np.sqrt(denominator / denominator.conj())", expect='gain-form', props=['C12'])
mut('C16-dhtv-bin-range-swapped', 'C16', PA, "                for f in range(start, end):", "                for f in range(end, start):", expect='segment-bins', props=['C16'])
mut('C16-plan-segment-negative-width', 'C16', PA, "                segment_start + self.segment_width,\n            ]\n            for segment_start in range(\n            self.segment_start - self.segment_shift",
    "                segment_start - self.segment_width,\n            ]\n            for segment_start in range(\n            self.segment_start - self.segment_shift", expect='segment-width', props=['C16'])
mut('C16-centroid-normalised-over-classes', 'C16', PA, "                        time_centroid,\n                        axis=-1,", "                        time_centroid,\n                        axis=0,", expect='time-normalisation', props=['C16'])
mut('C15-cos-normalised-over-frequency', 'C15', PA, "            _parameterized_vector_norm(mask, axis=-1),", "            _parameterized_vector_norm(mask, axis=-2),", expect='unit-along-time', props=['C15'])
mut('C19-power-real-minus-imag', 'C19', SX, "return np.mean(X.real ** 2 + X.imag ** 2,", "return np.mean(X.real ** 2 - X.imag ** 2,", expect='mean-square', props=['C19'])
mut('C19-set-snr-divides-noise', 'C19', SX, "        return X, N * factor", "        return X, N / factor", expect='apply', props=['C19'])
mut('C19-candidates-last-axis', 'C19', SX, "    for p in range(all_target_selections.shape[0]):", "    for p in range(all_target_selections.shape[-1]):", expect='all-candidates', props=['C19'])
mut('C08-self-call-arguments-crossed', 'C08', D + 'vmfcacgmm.py', "affiliation, quadratic_form = self._predict(observation, embedding)", "affiliation, quadratic_form = self._predict(embedding, observation)", expect='R-ARGNAME', props=['C08'])
# ---- second pass over the survey
mut('C08-aligner-guard-flipped', 'C08', D + 'cbmm.py', "                if inline_permutation_aligner is not None:", "                if inline_permutation_aligner is None:", expect='aligner-guard', props=['C08'])
mut('C08-none-quadratic-form-transposed', 'C08', D + 'mixture_model_utils.py', "    if quadratic_form is not None:\n        quadratic_form = np.transpose", "    if quadratic_form is None:\n        quadratic_form = np.transpose", expect='R-NONE', props=['C08'])
mut('C06-bingham-dimension-from-left', 'C06', D + 'complex_bingham.py', "        D = deltas.shape[-1]", "        D = deltas.shape[0]", expect='shape-from-left', props=['C06'])
mut('C10-condition-loading-divided-by-trace', 'C10', BF, "scale = gamma * np.trace(x, axis1=-2, axis2=-1) / x.shape[-1]", "scale = gamma / np.trace(x, axis1=-2, axis2=-1) / x.shape[-1]", expect='condition_covariance', props=['C10'])
mut('C10-condition-loading-times-dimension', 'C10', BF, "scale = gamma * np.trace(x, axis1=-2, axis2=-1) / x.shape[-1]", "scale = gamma * np.trace(x, axis1=-2, axis2=-1) * x.shape[-1]", expect='condition_covariance', props=['C10'])
neu('N9-condition-covariance-rearranged', ALLP, [(BF, "    return (x + scaled_eye) / (1 + gamma)", "    return (scaled_eye + x) * (1 / (gamma + 1))", False)])
mut('C13-atf-target-noise-crossed-positionally', 'C13', 'pb_bss/extraction/beamformer_wrapper.py', "        return _get_gev_atf_vector(\n            target_psd_matrix,\n            noise_psd_matrix,",
    "        return _get_gev_atf_vector(\n            noise_psd_matrix,\n            target_psd_matrix,", expect='role', props=['C13'])
# ---- third pass: statement deletions / option strings that neither the checks nor the pinned tests noticed (text-level survey, tools/mutate.py --ops del-stmt,str-option)
MMU_ = D + 'mixture_model_utils.py'
mut('C14-inline-affiliation-not-permuted', 'C14', MMU_, "    affiliation = aligner.apply_mapping(affiliation, mapping)\n", "", expect='value-preserving', props=['C14', 'C08'])
mut('C14-inline-affiliation-left-transposed', 'C14', MMU_, "    affiliation = aligner.apply_mapping(affiliation, mapping)\n    affiliation = np.transpose(affiliation, (1, 0, 2))\n",
    "    affiliation = aligner.apply_mapping(affiliation, mapping)\n", expect='value-preserving', props=['C14', 'C08'])
mut('C14-inline-quadratic-form-not-permuted', 'C14', MMU_, "        quadratic_form = aligner.apply_mapping(quadratic_form, mapping)\n", "", expect='value-preserving', props=['C14', 'C08'])
mut('C14-inline-quadratic-form-permuted-in-caller-layout', 'C14', MMU_, "        quadratic_form = np.transpose(quadratic_form, (1, 0, 2))\n        quadratic_form = aligner.apply_mapping",
    "        quadratic_form = aligner.apply_mapping", expect='value-preserving', props=['C14', 'C08'])
GA_ = D + 'gaussian.py'
mut('C08-diagonal-mass-not-expanded', 'C08', GA_, "            denominator = denominator[..., None]\n            model_cls = DiagonalGaussian", "            model_cls = DiagonalGaussian", expect='mass-rank', props=['C08'])
mut('C08-full-mass-expanded-once', 'C08', GA_, "            denominator = denominator[..., None, None]\n            model_cls = Gaussian", "            denominator = denominator[..., None]\n            model_cls = Gaussian", expect='mass-rank', props=['C08'])
mut('C08-spherical-not-divided-by-dimension', 'C08', GA_, "            denominator = denominator * dimension\n", "", expect='mass-count', props=['C08'])
mut('C08-diagonal-divided-by-dimension', 'C08', GA_, "            denominator = denominator[..., None]\n            model_cls = DiagonalGaussian", "            denominator = denominator[..., None] * dimension\n            model_cls = DiagonalGaussian", expect='mass-count', props=['C08'])
mut('C08-ccsg-mass-not-expanded', 'C08', D + 'complex_circular_symmetric_gaussian.py', "            denominator = denominator[..., None, None]\n", "", expect='mass-rank', props=['C08'])
mut('C08-covariance-type-strings-crossed', 'C08', GA_, '        if covariance_type == "full":\n            operation = "...nd,...nD->...dD"', '        if covariance_type == "spherical":\n            operation = "...nd,...nD->...dD"', expect='option-class', props=['C08'])
mut('C08-diagonal-returns-full-class', 'C08', GA_, "            model_cls = DiagonalGaussian", "            model_cls = Gaussian", expect='class-rank', props=['C08'])
mut('C12-pca-scaling-strings-crossed', 'C12', BF, "    elif scaling == 'trace':", "    elif scaling == 'eigenvalue':", expect='option', props=['C12'])
mut('C10-mask-not-brought-to-source-time-layout', 'C10', BF, "            mask = mask.transpose(mask_transpose)\n", "", expect='layout', props=['C10'])
mut('C10-observation-layout-time-sensor', 'C10', BF, "    ] + [sensor_dim, time_dim]\n    observation = observation.transpose(obs_transpose)", "    ] + [time_dim, sensor_dim]\n    observation = observation.transpose(obs_transpose)", expect='layout', props=['C10'])
mut('C10-mask-layout-uses-sensor-dim', 'C10', BF, "            ] + [source_dim, time_dim]\n            mask = mask.transpose(mask_transpose)", "            ] + [sensor_dim, time_dim]\n            mask = mask.transpose(mask_transpose)", expect='layout', props=['C10'])
mut('C18-quantile-of-complex-values', 'C18', 'pb_bss/extraction/mask_module.py', "    signal = np.abs(signal)\n\n    assert sensor_axis is None", "    assert sensor_axis is None", expect='magnitudes', props=['C18'])
mut('C13-stable-solve-rhs-not-flattened', 'C13', 'pb_bss/math/solve.py', "        B = B.reshape(working_shape_B)\n", "", expect='flattened', props=['C13'])
mut('C13-stable-solve-matrix-not-flattened', 'C13', 'pb_bss/math/solve.py', "        A = A.reshape(working_shape_A)\n        B = B.reshape", "        B = B.reshape", expect='flattened', props=['C13'])
PA_ = 'pb_bss/permutation_alignment.py'
mut('C16-dhtv-centroid-not-normalised', 'C16', PA_, "                if self.similarity_metric in ['cos']:\n                    time_centroid = _parameterized_vector_norm(\n                        time_centroid,\n                        axis=-1,\n                    )\n", "", expect='cos-unit', props=['C16'])
mut('C16-dhtv-centroid-normalised-for-euclidean-only', 'C16', PA_, "                if self.similarity_metric in ['cos']:\n                    time_centroid", "                if self.similarity_metric in ['euclidean']:\n                    time_centroid", expect='cos-unit', props=['C16'])
mut('C19-input-snr-not-averaged', 'C19', SX, "        SNR = np.mean(SNR, axis=0)\n", "", expect='same-postprocessing', props=['C19'])
mut('C19-output-sdr-not-averaged', 'C19', SX, "        SDR = np.mean(SDR)\n", "", expect='same-postprocessing', props=['C19'])
mut('C19-output-sir-averaged-over-axis', 'C19', SX, "        SIR = np.mean(SIR)\n", "        SIR = np.median(SIR)\n", expect='same-postprocessing', props=['C19'])
mut('C07-bingham-log-pdf-complex-typed', 'C07', D + 'complex_bingham.py', "        result = result.real\n        result -= self.log_norm()[..., None]", "        result -= self.log_norm()[..., None]", expect='R-REAL', props=['C07'])
mut('C09-bingham-duplicate-eigenvalues-not-spread', 'C09', D + 'complex_bingham.py', "        covariance_eigenvalues[..., 1:] = (\n                covariance_eigenvalues[..., 0][..., None]\n                + np.cumsum(diff, axis=-1)\n        )\n", "", expect='R-DROP', props=['C09'])
neu('N11-unused-temporary-is-not-a-dropped-floor', ALLP, [(D + 'complex_bingham.py', "        diff = np.maximum(diff, eps)\n", "        diff = np.maximum(diff, eps)\n        spread = np.cumsum(diff, axis=-1)\n", False)])
# ---- fourth pass (round-8 rules): frozen models, memoised results, loops that ignore their index, Hermitian factors, restore on a stack, exclusion by subtraction
mut('C02-gmm-fixed-covariance-assigned', 'C02', D + 'gmm.py',
    "            gaussian = gaussian.__class__(\n                mean=gaussian.mean,\n                covariance=fixed_covariance\n            )\n\n        return GMM(",
    "            gaussian.covariance = fixed_covariance\n\n        return GMM(", expect='R-FROZEN', props=['C02'])
neu('N14-model-rebuilt-with-new-covariance', ALLP, [(D + 'gmm.py',
    "            gaussian = gaussian.__class__(\n                mean=gaussian.mean,\n                covariance=fixed_covariance\n            )\n\n        return GMM(",
    "            model_cls = type(gaussian)\n            gaussian = model_cls(mean=gaussian.mean, covariance=fixed_covariance)\n\n        return GMM(", False)])
mut('C20-dhtv-identity-mapping-memoised', 'C20', PA,
    "    def calculate_mapping(self, mask, plot=False):\n        \"\"\"Returns just the mapping based on permuted mask input.",
    "    @staticmethod\n    @functools.lru_cache(maxsize=8)\n    def _identity_mapping(K, F):\n        return np.repeat(np.arange(K)[:, None], F, axis=1)\n\n"
    "    def calculate_mapping(self, mask, plot=False):\n        \"\"\"Returns just the mapping based on permuted mask input.",
    expect='memoised', props=['C20'])
C[-1]['edits'] += [dict(file=PA, old="        mapping = np.repeat(np.arange(K)[:, None], F, axis=1)\n\n        if plot:", new="        mapping = self._identity_mapping(K, F)\n\n        if plot:", nth=0, all=False),
                   dict(file=PA, old="import numpy as np\nimport itertools\n", new="import numpy as np\nimport functools\nimport itertools\n", nth=0, all=False)]
neu('N14-dhtv-identity-mapping-memoised-and-copied', ALLP, [
    (PA, "    def calculate_mapping(self, mask, plot=False):\n        \"\"\"Returns just the mapping based on permuted mask input.",
     "    @staticmethod\n    @functools.lru_cache(maxsize=8)\n    def _identity_mapping(K, F):\n        return np.repeat(np.arange(K)[:, None], F, axis=1)\n\n"
     "    def calculate_mapping(self, mask, plot=False):\n        \"\"\"Returns just the mapping based on permuted mask input.", False),
    (PA, "        mapping = np.repeat(np.arange(K)[:, None], F, axis=1)\n\n        if plot:", "        mapping = self._identity_mapping(K, F).copy()\n\n        if plot:", False),
    (PA, "import numpy as np\nimport itertools\n", "import numpy as np\nimport functools\nimport itertools\n", False)])
mut('C03-get-pca-partial-solver-by-default', 'C03', 'pb_bss/utils.py', "def get_pca(target_psd_matrix, use_scipy=False):", "def get_pca(target_psd_matrix, use_scipy=True):", expect='R-ITER', props=['C03'])
mut('C03-watson-asks-for-partial-solver', 'C03', D + 'complex_watson.py', "        mode, eigenvalues = get_pca(covariance)", "        mode, eigenvalues = get_pca(covariance, use_scipy=True)", expect='R-ITER', props=['C03'])
neu('N14-get-pca-partial-solver-indexed', ALLP, [('pb_bss/utils.py', "                target_psd_matrix[-1], eigvals=(D-1, D-1)", "                target_psd_matrix[f], eigvals=(D-1, D-1)", False)])
mut('C19-input-interference-total-minus-own', 'C19', SX,
    "    for d in range(D):\n        for k in range(K):\n            I[k, d] = np.sum(\n                S[[n for n in range(K) if n != k], d],\n                axis=0\n            )\n",
    "    I = np.sum(S, axis=0, keepdims=True) - S\n", expect='exclusion-by-subtraction', props=['C19'])
# ---- fifth pass (round-9 rules)
VM = D + 'vmfmm.py'
mut('C09-vmfmm-norm-floor-python-float', 'C09', VM, "np.linalg.norm(y, axis=-1, keepdims=True), np.finfo(y.dtype).tiny\n        )\n        return self._predict(y)",
    "np.linalg.norm(y, axis=-1, keepdims=True), 1e-300\n        )\n        return self._predict(y)", expect='R-SIGN', props=['C01', 'C09'])
neu('N15-norm-floor-float32-tiny-constant', ALLP, [(VM, "np.linalg.norm(y, axis=-1, keepdims=True), np.finfo(y.dtype).tiny\n        )\n        return self._predict(y)",
    "np.linalg.norm(y, axis=-1, keepdims=True), np.finfo(y.dtype).tiny * 1\n        )\n        return self._predict(y)", False)])
BFM = 'pb_bss/extraction/beamformer.py'
mut('C12-pca-vector-times-sign-of-first-component', 'C12', BFM, "    eigenvectors, eigenvalues = get_pca(target_psd_matrix)\n    if scaling is None:",
    "    eigenvectors, eigenvalues = get_pca(target_psd_matrix)\n    eigenvectors = eigenvectors * np.conj(np.sign(eigenvectors[..., :1]))\n    if scaling is None:", expect='eigenvector-times-sign', props=['C12'])
mut('C13-wmwf-reference-ranked-on-solution', 'C13', BFM, "            reference_channel = get_optimal_reference_channel(\n                filter_, target_psd_matrix, noise_psd_matrix)",
    "            reference_channel = get_optimal_reference_channel(\n                phi, target_psd_matrix, noise_psd_matrix)", expect='ranked-matrix', props=['C11', 'C13'])
mut('C16-dhtv-centroid-into-like-buffer', 'C16', PA, "                time_centroid = np.mean(features[:, start:end, :], axis=1)",
    "                time_centroid = np.mean(features[:, start:end, :], axis=1, out=np.empty_like(features[:, 0, :]))", expect='R-DTYPE', props=['C14', 'C16'])
neu('N15-dhtv-centroid-into-float-buffer', ALLP, [(PA, "                time_centroid = np.mean(features[:, start:end, :], axis=1)",
    "                time_centroid = np.mean(features[:, start:end, :], axis=1, out=np.empty(features[:, 0, :].shape))", False)])
# ---- sixth pass (third reading of the mutation survey): working shape split, destination axes, row loops, buffers that are never filled, loop extents, power axis
MM = 'pb_bss/extraction/mask_module.py'
mut('C18-lorenz-working-shape-counts-from-the-front', 'C18', MM, "        np.prod(shape[:-len(tmp_axis)], dtype=np.int64),\n        np.prod(shape[-len(tmp_axis):]),", "        np.prod(shape[:len(tmp_axis)], dtype=np.int64),\n        np.prod(shape[len(tmp_axis):]),", expect='working-shape-split', props=['C18'])
mut('C18-lorenz-destination-axes-not-trailing', 'C18', MM, "    # Only works, when last two dimensions are frequency and time.\n    tmp_axis = tuple([-i - 1 for i in range(len(axis))])", "    # Only works, when last two dimensions are frequency and time.\n    tmp_axis = tuple([i - 1 for i in range(len(axis))])", expect='destination', props=['C18'])
mut('C18-lorenz-row-loop-over-samples', 'C18', MM, "    for i in range(power.shape[0]):\n        mask[i, :] = get_mask(power[i])", "    for i in range(power.shape[-1]):\n        mask[i, :] = get_mask(power[i])", expect='row-loop', props=['C18'])
mut('C18-lorenz-mask-never-filled', 'C18', MM, "    for i in range(power.shape[0]):\n        mask[i, :] = get_mask(power[i])", "    for i in range(power.shape[0]):\n        get_mask(power[i])", expect='filled', props=['C18'])
neu('N17-lorenz-rows-by-zip-and-range-destination', ALLP, [
    (MM, "    for i in range(power.shape[0]):\n        mask[i, :] = get_mask(power[i])", "    for mask_row, power_row in zip(mask, power):\n        mask_row[...] = get_mask(power_row)", False),
    (MM, "    # Only works, when last two dimensions are frequency and time.\n    tmp_axis = tuple([-i - 1 for i in range(len(axis))])", "    # Only works, when last two dimensions are frequency and time.\n    tmp_axis = tuple(range(-1, -len(axis) - 1, -1))", False)])
mut('C14-greedy-pick-never-recorded', 'C14', PA, "                reverse_permutation[(i, *f)] = j\n", "                pass\n", expect='filled', props=['C14'])
mut('C13-stable-solve-loop-over-last-extent', 'C13', 'pb_bss/math/solve.py', "        for i in range(working_shape_A[0]):", "        for i in range(working_shape_A[-1]):", expect='extent', props=['C13', 'C11'])
mut('C19-noise-power-over-sensors', 'C19', SX, "    N = get_variance_for_zero_mean_signal(noise, axis=-1)  # Noise power", "    N = get_variance_for_zero_mean_signal(noise, axis=-2)  # Noise power", expect='power-axis', props=['C19'])
mut('C15-euclidean-summed-over-classes', 'C15', PA, "            np.abs(mask[:, None, ...] - reference_mask[None, ...]) ** 2,\n            axis=-1\n        )).T", "            np.abs(mask[:, None, ...] - reference_mask[None, ...]) ** 2,\n            axis=-2\n        )).T", expect='layout', props=['C15'])
# ---- seventh pass (round-11 rules): neutral twins of the enumerated rules
neu('N19-psd-observation-by-two-moves', ALLP, [('pb_bss/extraction/beamformer.py',
    "    obs_transpose = [\n        i\n        for i in range(-observation.ndim, 0) if i not in [sensor_dim, time_dim]\n    ] + [sensor_dim, time_dim]\n    observation = observation.transpose(obs_transpose)\n",
    "    observation = np.moveaxis(observation, time_dim, -1)\n    if time_dim < sensor_dim < 0:\n        sensor_dim -= 1\n    observation = np.moveaxis(observation, sensor_dim, -2)\n", False)])
mut('C10-psd-sensor-axis-stale-after-move', 'C10', 'pb_bss/extraction/beamformer.py',
    "    obs_transpose = [\n        i\n        for i in range(-observation.ndim, 0) if i not in [sensor_dim, time_dim]\n    ] + [sensor_dim, time_dim]\n    observation = observation.transpose(obs_transpose)\n",
    "    observation = np.moveaxis(observation, time_dim, -1)\n    if time_dim < sensor_dim < -1:\n        sensor_dim -= 1\n    observation = np.moveaxis(observation, sensor_dim, -2)\n", expect='layout', props=['C10'])
mut('C16-dhtv-passes-start-at-one', 'C16', PA, "            for iteration in range(iterations):", "            for iteration in range(1, iterations):", expect='passes', props=['C16'])
neu('N19-dhtv-passes-counted-from-one', ALLP, [(PA, "            for iteration in range(iterations):", "            for iteration in range(1, iterations + 1):", False)])
mut('C09-cacg-eig-on-request', 'C09', D + 'complex_angular_central_gaussian.py', "            eigenvals, eigenvecs = np.linalg.eigh(covariance)\n", "            eigenvals, eigenvecs = np.linalg.eig(covariance) if eigenvalue_floor else np.linalg.eigh(covariance)\n", expect='eig-on-regular-path', props=['C09'])
mut('C13-reference-channel-floor-default-zero', 'C13', 'pb_bss/extraction/beamformer.py', "        noise_psd_matrix,\n        eps=None,\n):\n    if w_mat.ndim != 3:", "        noise_psd_matrix,\n        eps=0.,\n):\n    if w_mat.ndim != 3:", expect='default-floor', props=['C11', 'C13'])
# ---- eighth pass (tenth campaign: axes written relative to the rank, loops written blockwise / shifted / counted down): neutral spellings and their broken twins
SOLVE = 'pb_bss/math/solve.py'
MM = 'pb_bss/extraction/mask_module.py'
neu('N20-stable-solve-blockwise', ALLP, [(SOLVE,
    "        for i in range(working_shape_A[0]):\n            # lstsq is much slower, use it only when necessary\n            try:\n                C[i] = np.linalg.solve(A[i], B[i])\n            except np.linalg.LinAlgError:\n                C[i], *_ = np.linalg.lstsq(A[i], B[i])\n",
    "        total = working_shape_A[0]\n        block = 8\n        for b in range(-(-total // block)):\n            for i in range(b * block, min((b + 1) * block, total)):\n                try:\n                    C[i] = np.linalg.solve(A[i], B[i])\n                except np.linalg.LinAlgError:\n                    C[i], *_ = np.linalg.lstsq(A[i], B[i])\n", False)])
mut('C13-stable-solve-blockwise-last-block-dropped', 'C13', SOLVE,
    "        for i in range(working_shape_A[0]):\n            # lstsq is much slower, use it only when necessary\n            try:\n                C[i] = np.linalg.solve(A[i], B[i])\n            except np.linalg.LinAlgError:\n                C[i], *_ = np.linalg.lstsq(A[i], B[i])\n",
    "        total = working_shape_A[0]\n        block = 8\n        for b in range(total // block):\n            for i in range(b * block, min((b + 1) * block, total)):\n                try:\n                    C[i] = np.linalg.solve(A[i], B[i])\n                except np.linalg.LinAlgError:\n                    C[i], *_ = np.linalg.lstsq(A[i], B[i])\n",
    expect=None, props=['C13', 'C11'], note='total // block blocks: the matrices of the last, partial block are never solved')
neu('N20-greedy-composition-shifted-index', ALLP, [(PA, "        for f in range(1, F):\n            mapping[:, f] = mapping[mapping[:, f - 1], f]\n",
                                                    "        for previous_f in range(F - 1):\n            f = previous_f + 1\n            mapping[:, f] = mapping[mapping[:, previous_f], f]\n", False)])
mut('C16-greedy-composition-shifted-index-reads-itself', 'C16', PA, "        for f in range(1, F):\n            mapping[:, f] = mapping[mapping[:, f - 1], f]\n",
    "        for previous_f in range(F - 1):\n            f = previous_f + 1\n            mapping[:, f] = mapping[mapping[:, f], previous_f]\n", expect=None, props=['C16', 'C14'],
    note='the two bins exchanged: column f-1 is gathered by column f')
neu('N20-complex-mask-sum-via-front-axis', ALLP, [(MM, "    observed_signal = np.sum(signal, axis=source_axis, keepdims=True)\n    return signal / observed_signal",
                                                  "    observed_signal = np.swapaxes(\n        np.sum(np.swapaxes(signal, source_axis, 0), axis=0, keepdims=True),\n        0, source_axis,\n    )\n    return signal / observed_signal", False)])
mut('C18-complex-mask-sum-via-front-axis-not-moved-back', 'C18', MM, "    observed_signal = np.sum(signal, axis=source_axis, keepdims=True)\n    return signal / observed_signal",
    "    observed_signal = np.sum(np.swapaxes(signal, source_axis, 0), axis=0, keepdims=True)\n    return signal / observed_signal", expect=None, props=['C18'],
    note='the summed axis stays in front: the quotient broadcasts the sum against the wrong axis')
neu('N20-wiener-mask-explicit-broadcast', ALLP, [(MM, "    mask /= mask.sum(source_axis, keepdims=True) + eps\n\n    if sensor_axis is not None and not keepdims:",
                                                 "    normalizer = mask.sum(source_axis, keepdims=True) + eps\n    mask /= np.broadcast_to(normalizer, np.shape(mask))\n\n    if sensor_axis is not None and not keepdims:", False)])
mut('C18-wiener-mask-explicit-broadcast-of-the-sensor-sum', 'C18', MM, "    mask /= mask.sum(source_axis, keepdims=True) + eps\n\n    if sensor_axis is not None and not keepdims:",
    "    normalizer = mask.sum(-1, keepdims=True) + eps\n    mask /= np.broadcast_to(normalizer, np.shape(mask))\n\n    if sensor_axis is not None and not keepdims:", expect=None, props=['C18'],
    note='the explicit broadcast hides nothing: the sum runs over a fixed axis instead of source_axis')
neu('N20-unit-norm-axis-counted-from-the-front', ALLP, [(D + 'utils.py', "    norm = np.linalg.norm(signal, ord=ord, axis=axis, keepdims=True)",
                                                        "    ndim = np.ndim(signal)\n    if isinstance(axis, int) and -ndim <= axis < 0:\n        axis = axis + ndim\n    norm = np.linalg.norm(signal, ord=ord, axis=axis, keepdims=True)", False)])
mut('C04-unit-norm-axis-shifted-by-one', 'C04', D + 'utils.py', "    norm = np.linalg.norm(signal, ord=ord, axis=axis, keepdims=True)",
    "    ndim = np.ndim(signal)\n    if isinstance(axis, int) and -ndim <= axis < 0:\n        axis = axis + ndim - 1\n    norm = np.linalg.norm(signal, ord=ord, axis=axis, keepdims=True)", expect=None, props=['C04', 'C05'],
    note='the axis counted from the front is off by one: the norm is taken over the neighbouring axis')
neu('N20-cwmm-em-loop-counted-from-one', ALLP, [(D + 'cwmm.py', "        for iteration in range(iterations):", "        for iteration in range(1, iterations + 1):", False)])
neu('N20-cwmm-em-loop-reversed-counter', ALLP, [(D + 'cwmm.py', "        for iteration in range(iterations):", "        for iteration in reversed(range(iterations)):", False)])
mut('C08-cwmm-em-loop-counted-from-one-short', 'C08', D + 'cwmm.py', "        for iteration in range(iterations):", "        for iteration in range(1, iterations):", expect='range', props=['C08'])
neu('N20-bingham-fit-flat-index-unravelled', ALLP, [(D + 'complex_bingham.py', "        for index in np.ndindex(scatter_eigenvalues.shape[:-1]):",
                                                    "        independent_shape = scatter_eigenvalues.shape[:-1]\n        for flat_index in range(int(np.prod(independent_shape))):\n            index = np.unravel_index(flat_index, independent_shape)", False)],
    note='(int(np.prod(...)) is not the form the rule reads: C03 / C06 may stay undecided)')
# ---- ninth pass (round-12 rules): the correct twins of the seeded rewrites
CACG = D + 'complex_angular_central_gaussian.py'
BF = 'pb_bss/extraction/beamformer.py'
# (np.take(eigenvals, -1, axis=-1) would NOT be a neutral twin: the handler path decomposes with np.linalg.eig, whose eigenvalues are not sorted)
mut('C05-cacg-relative-floor-from-the-flattened-stack', 'C05', CACG, "                np.amax(eigenvals, axis=-1, keepdims=True) * eigenvalue_floor,",
    "                np.take(eigenvals, -1) * eigenvalue_floor,", expect='flat-index', props=['C05'])
neu('N21-pca-decomposed-blockwise', ALLP, [(BF, "        beamforming_vector = eigenvecs[..., -1]\n        eigenvalues = eigenvals[..., -1]\n        # Reconstruct original shape\n",
    "        bins = target_psd_matrix.shape[0]\n        block = 1024\n        beamforming_vector = np.zeros((bins, shape[-1]), dtype=eigenvecs.dtype)\n        eigenvalues = np.zeros(bins, dtype=eigenvals.dtype)\n"
    "        for b in range(-(-bins // block)):\n            s = slice(b * block, (b + 1) * block)\n            vals, vecs = np.linalg.eigh(target_psd_matrix[s])\n"
    "            beamforming_vector[s] = vecs[..., -1]\n            eigenvalues[s] = vals[..., -1]\n        # Reconstruct original shape\n", False)])
mut('C12-pca-decomposed-blockwise-floor-number-of-blocks', 'C12', BF, "        beamforming_vector = eigenvecs[..., -1]\n        eigenvalues = eigenvals[..., -1]\n        # Reconstruct original shape\n",
    "        bins = target_psd_matrix.shape[0]\n        block = 1024\n        beamforming_vector = np.zeros((bins, shape[-1]), dtype=eigenvecs.dtype)\n        eigenvalues = np.zeros(bins, dtype=eigenvals.dtype)\n"
    "        for b in range(bins // block):\n            s = slice(b * block, (b + 1) * block)\n            vals, vecs = np.linalg.eigh(target_psd_matrix[s])\n"
    "            beamforming_vector[s] = vecs[..., -1]\n            eigenvalues[s] = vals[..., -1]\n        # Reconstruct original shape\n", expect='last-block', props=['C12', 'C13'])
neu('N21-psd-source-branch-by-matmul', ALLP, [(BF, "            psd = np.einsum(\n                '...kt,...dt,...et->...kde',\n                mask,\n                observation,\n                observation.conj()\n            )\n",
    "            psd = np.matmul(\n                mask[..., :, None, :] * observation[..., None, :, :],\n                np.swapaxes(observation.conj(), -1, -2)[..., None, :, :],\n            )\n", False)])
mut('C10-psd-source-branch-by-matmul-conjugate-on-the-row-factor', 'C10', BF, "            psd = np.einsum(\n                '...kt,...dt,...et->...kde',\n                mask,\n                observation,\n                observation.conj()\n            )\n",
    "            psd = np.matmul(\n                mask[..., :, None, :] * observation.conj()[..., None, :, :],\n                np.swapaxes(observation, -1, -2)[..., None, :, :],\n            )\n", expect='conj-second', props=['C10'])
neu('N21-mvdr-hermitian-in-place-on-the-ufunc-result', ALLP, [(BF, "    noise_psd_matrix = 0.5 * (\n        noise_psd_matrix + np.conj(noise_psd_matrix.swapaxes(-1, -2))\n    )\n",
    "    hermitian = np.conj(noise_psd_matrix.swapaxes(-1, -2))\n    hermitian += noise_psd_matrix\n    hermitian *= 0.5\n    noise_psd_matrix = hermitian\n", False)],
    note='np.conj (the ufunc) always allocates: the in-place steps work on an own array (C11 may not read the formula any more)')
mut('C20-mvdr-hermitian-in-place-on-the-method-result', 'C20', BF, "    noise_psd_matrix = 0.5 * (\n        noise_psd_matrix + np.conj(noise_psd_matrix.swapaxes(-1, -2))\n    )\n",
    "    hermitian = noise_psd_matrix.swapaxes(-1, -2).conj()\n    hermitian += noise_psd_matrix\n    hermitian *= 0.5\n    noise_psd_matrix = hermitian\n", expect='noise_psd_matrix', props=['C20'])
# ---- tenth pass (eleventh campaign: block-wise / in-place rewrites that are correct, and their broken twins)
CW = D + 'cwmm.py'
PRED = "        y = y / np.maximum(\n            np.linalg.norm(y, axis=-1, keepdims=True), np.finfo(y.dtype).tiny\n        )\n        return self._predict(y)"
neu('N22-cwmm-predict-normalised-blockwise-in-place', ALLP, [(CW, PRED,
    "        tiny = np.finfo(y.dtype).tiny\n        y = np.array(y, copy=True)\n        n = y.shape[-2]\n        for start in range(0, n, 512):\n            stop = min(start + 512, n)\n"
    "            block = y[..., start:stop, :]\n            block /= np.maximum(np.linalg.norm(block, axis=-1, keepdims=True), tiny)\n        return self._predict(y)", False)])
mut('C04-cwmm-predict-normalised-blockwise-last-block-skipped', 'C04', CW, PRED,
    "        tiny = np.finfo(y.dtype).tiny\n        y = np.array(y, copy=True)\n        n = y.shape[-2]\n        for start in range(0, n - 511, 512):\n            stop = start + 512\n"
    "            block = y[..., start:stop, :]\n            block /= np.maximum(np.linalg.norm(block, axis=-1, keepdims=True), tiny)\n        return self._predict(y)", expect=None, props=['C04'],
    note='range(0, n - 511, 512): the frames behind the last full block keep their gain')
neu('N22-cwmm-predict-normalised-piecewise-array-split', ALLP, [(CW, PRED,
    "        tiny = np.finfo(y.dtype).tiny\n        y = np.array(y, copy=True)\n        for block in np.array_split(y, max(1, -(-y.shape[-2] // 512)), axis=-2):\n"
    "            block /= np.maximum(np.linalg.norm(block, axis=-1, keepdims=True), tiny)\n        return self._predict(y)", False)])
neu('N22-cwmm-predict-norm-as-self-inner-product', ALLP, [(CW, PRED,
    "        norm = np.sqrt(np.einsum('...d,...d->...', y, y.conj()).real[..., None])\n        np.maximum(norm, np.finfo(y.dtype).tiny, out=norm)\n        y = y / norm\n        return self._predict(y)", False)])
VM = D + 'vmfmm.py'
INIT = "            initialization \\\n                /= np.einsum(\"...kn->...n\", initialization)[..., None, :]\n"
neu('N22-vmfmm-random-start-class-sum-as-a-loop', ALLP, [(VM, INIT,
    "            total = np.zeros((*independent, num_observations))\n            for k in range(num_classes):\n                total += initialization[..., k, :]\n            initialization /= total[..., None, :]\n", False)])
mut('C01-vmfmm-random-start-sum-over-the-frames-as-a-loop', 'C01', VM, INIT,
    "            total = np.zeros((*independent, num_classes))\n            for n in range(num_observations):\n                total += initialization[..., :, n]\n            initialization /= total[..., :, None]\n",
    expect=None, props=['C01', 'C09'], note='the loop sums over the observations: every class row is normalised, not every observation column')
neu('N22-vmfmm-random-start-ufunc-reduce', ALLP, [(VM, INIT, "            initialization /= np.add.reduce(initialization, axis=-2, keepdims=True)\n", False)])
# ---- eleventh pass (round-13 rules): correct twins of the seeded memory / speed rewrites
SI = 'pb_bss/evaluation/module_si_sdr.py'
SISDR = "    noise = estimation - projection\n\n    ratio = np.sum(projection ** 2, axis=-1) / np.sum(noise ** 2, axis=-1)\n    return 10 * np.log10(ratio)"
BLOCKS = ("    T = reference.shape[-1]\n    block = min(max(T, 1), 1024)\n    noise = np.empty(reference.shape[:-1] + (block,))\n    noise_energy = np.zeros(reference.shape[:-1])\n"
          "    for start in range(0, T, block):\n        stop = min(start + block, T)\n        buffer = noise[..., :stop - start]\n"
          "        np.subtract(estimation[..., start:stop], projection[..., start:stop], out=buffer)\n        noise_energy += np.einsum('...t,...t->...', %s, %s)\n"
          "    return 10 * np.log10(np.sum(projection ** 2, axis=-1) / noise_energy)")
neu('N23-si-sdr-residual-energy-blockwise-reads-the-written-part', ALLP, [(SI, SISDR, BLOCKS % ('buffer', 'buffer'), False)], note='(C19 stops undecided: the residual energy is accumulated over blocks, the reductions of the defining formula are not found)', inconclusive_ok=['C19'])
mut('C19-si-sdr-residual-energy-blockwise-reads-the-whole-buffer', 'C19', SI, SISDR, BLOCKS % ('noise', 'noise'), expect='partial-buffer-read', props=['C19'])
MU = D + 'mixture_model_utils.py'
neu('N23-mixture-weight-saliency-as-floating-array', ALLP, [(MU, "        masked_affiliation = affiliation * saliency[..., None, :]\n        weight = _unit_norm(",
                                                            "        saliency = np.asarray(saliency, dtype=np.float64)\n        masked_affiliation = affiliation * saliency[..., None, :]\n        weight = _unit_norm(", False)])
mut('C08-mixture-weight-saliency-cast-to-the-affiliation-dtype', 'C08', MU, "        masked_affiliation = affiliation * saliency[..., None, :]\n        weight = _unit_norm(",
    "        saliency = np.asarray(saliency, dtype=affiliation.dtype)\n        masked_affiliation = affiliation * saliency[..., None, :]\n        weight = _unit_norm(", expect='cast-to-other-dtype', props=['C08'])
# ---- whole refactorings written by independent sub-agents (14-20 behaviour-preserving edits each, verified bit-identical on
#      600-900 inputs per patch): every check must stay silent on each of them
for r, what in (('R1', 'mixture_model_utils / cacgmm / cACG'), ('R2', 'cwmm / cbmm / Watson / Bingham / distribution.utils'), ('R3', 'gmm / gaussian / vMF / gcacgmm / vmfcacgmm'),
                ('R4', 'beamformer / beamformer_wrapper / math.solve'), ('R5', 'permutation_alignment / initializers'), ('R6', 'mask_module / sxr_module / si_sdr / utils')):
    C.append(dict(id=f'N3-{r}-refactoring', kind='neutral', properties=ALLP, note=f'independent refactoring of {what}', patch=f'neutral_patches/{r}.patch', edits=[]))
# ---- second campaign: deeper restructurings (guard clauses, extracted / inlined helpers incl. helpers that update arrays in place, loops <-> comprehensions /
#      zip / ndindex, moveaxis / transpose / swapaxes, clip / maximum, named constants, max(key=...), merged einsum branches, einsum <-> sum / matmul / broadcasting)
for r, what in (('R21', 'mixture_model_utils / cacgmm / cACG'), ('R22', 'cwmm / cbmm / Watson / Bingham / distribution.utils'), ('R23', 'gmm / gaussian / vMF / gcacgmm / vmfcacgmm'),
                ('R24', 'beamformer / beamformer_wrapper / math.solve'), ('R25', 'permutation_alignment / initializers'), ('R26', 'mask_module / sxr_module / si_sdr / utils')):
    C.append(dict(id=f'N4-{r}-restructuring', kind='neutral', properties=ALLP, note=f'independent deeper restructuring of {what}', patch=f'neutral_patches/{r}.patch', edits=[]))
# ---- third campaign: a free mix of both families (16-20 edits per patch)
for r, what in (('R31', 'mixture_model_utils / cacgmm / cACG'), ('R32', 'cwmm / cbmm / Watson / Bingham / distribution.utils'), ('R33', 'gmm / gaussian / vMF / gcacgmm / vmfcacgmm'),
                ('R34', 'beamformer / beamformer_wrapper / math.solve'), ('R35', 'permutation_alignment / initializers'), ('R36', 'mask_module / sxr_module / si_sdr / utils')):
    C.append(dict(id=f'N6-{r}-mixed-refactoring', kind='neutral', properties=ALLP, note=f'independent mixed refactoring of {what}', patch=f'neutral_patches/{r}.patch', edits=[]))
# ---- fourth campaign: a different developer's habits (from-imports and local aliases, @ / matmul / broadcasting instead of einsum, reduce(...)[..., None] for keepdims,
#      while loops with counters, dispatch tables of lambdas / constants, conditional expressions, np.take / np.full / np.square / x ** 0.5, methods delegating to module functions)
for r, what in (('R41', 'mixture_model_utils / cacgmm / cACG'), ('R42', 'cwmm / cbmm / Watson / Bingham / distribution.utils'), ('R43', 'gmm / gaussian / vMF / gcacgmm / vmfcacgmm'),
                ('R44', 'beamformer / beamformer_wrapper / math.solve'), ('R45', 'permutation_alignment / initializers'), ('R46', 'mask_module / sxr_module / si_sdr / utils')):
    C.append(dict(id=f'N8-{r}-other-habits', kind='neutral', properties=ALLP, note=f'independent refactoring in a different style of {what}', patch=f'neutral_patches/{r}.patch', edits=[]))
# ---- fifth campaign: 18-25 edits per patch spread over as many different functions as possible (small helpers, properties, validation code, rarely used branches)
for r, what in (('R51', 'mixture_model_utils / cacgmm / cACG'), ('R52', 'cwmm / cbmm / Watson / Bingham / distribution.utils'), ('R53', 'gmm / gaussian / vMF / gcacgmm / vmfcacgmm'),
                ('R54', 'beamformer / beamformer_wrapper / math.solve'), ('R55', 'permutation_alignment / initializers'), ('R56', 'mask_module / sxr_module / si_sdr / utils')):
    C.append(dict(id=f'N10-{r}-broad', kind='neutral', properties=ALLP, note=f'independent broad refactoring of {what}', patch=f'neutral_patches/{r}.patch', edits=[]))
# ---- sixth campaign: restructured data flow (options and state in dicts / namedtuples, operands passed with *, index tuples built programmatically, functools.partial,
#      nested functions and closures selected once, np.divide(..., out=), post-processing in loops over several results, early returns)
for r, what in (('R61', 'mixture_model_utils / cacgmm / cACG'), ('R62', 'cwmm / cbmm / Watson / Bingham / distribution.utils'), ('R63', 'gmm / gaussian / vMF / gcacgmm / vmfcacgmm'),
                ('R64', 'beamformer / beamformer_wrapper / math.solve'), ('R65', 'permutation_alignment / initializers'), ('R66', 'mask_module / sxr_module / si_sdr / utils')):
    # checks that end INCONCLUSIVE (exit 2, no VIOLATION line) on these patches: the model does not follow a construct the patch introduces, and says so (DESIGN 10.5, sixth campaign)
    undecided = {'R64': ['C13'], 'R65': ['C01', 'C09', 'C14', 'C15', 'C16'], 'R66': ['C03', 'C06']}.get(r, [])
    C.append(dict(id=f'N12-{r}-dataflow', kind='neutral', properties=ALLP, note=f'independent data-flow restructuring of {what}', patch=f'neutral_patches/{r}.patch', edits=[],
                  inconclusive_ok=undecided))
# ---- seventh campaign: the broad prompt of campaign 5 again, after the builder had been reworked for campaign 6 (18-24 edits per patch)
for r, what in (('R71', 'mixture_model_utils / cacgmm / cACG'), ('R72', 'cwmm / cbmm / Watson / Bingham / distribution.utils'), ('R73', 'gmm / gaussian / vMF / gcacgmm / vmfcacgmm'),
                ('R74', 'beamformer / beamformer_wrapper / math.solve'), ('R75', 'permutation_alignment / initializers'), ('R76', 'mask_module / sxr_module / si_sdr / utils')):
    C.append(dict(id=f'N13-{r}-broad-2', kind='neutral', properties=ALLP, note=f'independent broad refactoring (second set) of {what}', patch=f'neutral_patches/{r}.patch', edits=[]))
# ---- eighth campaign: "performance / memory / robustness / clean-up" edits that are CORRECT (preallocated buffers with explicit dtypes and out=, in-place arithmetic on own temporaries,
#      memoised pure helpers, exact fast paths, vectorised loops) - the neutral counterparts of what the seeded changes of rounds 8 and 9 imitate
for r, what in (('R81', 'mixture_model_utils / cacgmm / cACG'), ('R82', 'cwmm / cbmm / Watson / Bingham / distribution.utils'), ('R83', 'gmm / gaussian / vMF / gcacgmm / vmfcacgmm'),
                ('R84', 'beamformer / beamformer_wrapper / math.solve'), ('R85', 'permutation_alignment / initializers'), ('R86', 'mask_module / sxr_module / si_sdr / utils')):
    C.append(dict(id=f'N16-{r}-performance', kind='neutral', properties=ALLP, note=f'independent correct performance / clean-up edits of {what}', patch=f'neutral_patches/{r}.patch', edits=[]))
# ---- ninth campaign: the code modernised for NumPy 2 / current Python (mT, matrix_transpose, permute_dims, vector_norm, linalg.trace, astype, pow, concat, cumulative_sum,
#      finfo.smallest_normal, isdtype, match statements with class patterns / guards / captures, structural unpacking of shapes, dataclasses.replace, math.prod / perm, star subscripts)
for r, what in (('R91', 'mixture_model_utils / cacgmm / cACG'), ('R92', 'cwmm / cbmm / Watson / Bingham / distribution.utils'), ('R93', 'gmm / gaussian / vMF / gcacgmm / vmfcacgmm'),
                ('R94', 'beamformer / beamformer_wrapper / math.solve'), ('R95', 'permutation_alignment / initializers'), ('R96', 'mask_module / sxr_module / si_sdr / utils')):
    C.append(dict(id=f'N18-{r}-modern', kind='neutral', properties=ALLP, note=f'independent modernisation of {what}', patch=f'neutral_patches/{r}.patch', edits=[]))
# ---- tenth campaign: every axis written in another way (x.ndim - k, -k % x.ndim, moveaxis / swapaxes / transpose / reshape / expand_dims / np.take for one another, einsum letters
#      renamed), loops written blockwise, shifted, counted down, over flat indices; axis orders built at run time
for r, what in (('R101', 'mixture_model_utils / cacgmm / cACG'), ('R102', 'cwmm / cbmm / Watson / Bingham / distribution.utils'), ('R103', 'gmm / gaussian / vMF / gcacgmm / vmfcacgmm'),
                ('R104', 'beamformer / beamformer_wrapper / math.solve'), ('R105', 'permutation_alignment / initializers'), ('R106', 'mask_module / sxr_module / si_sdr / utils')):
    # checks that end INCONCLUSIVE (exit 2, no VIOLATION line): shapes / axis orders assembled with list methods at run time, computed index tuples, blockwise concatenation
    # (DESIGN 10.5, tenth campaign)
    undecided = {'R101': ['C08', 'C09', 'C14'], 'R102': ['C01', 'C09'], 'R103': ['C01', 'C02', 'C03', 'C04', 'C05', 'C07', 'C08', 'C09'], 'R104': ['C10', 'C12', 'C13'],
                 'R106': ['C18', 'C19']}.get(r, [])
    C.append(dict(id=f'N20-{r}-axes', kind='neutral', properties=ALLP, note=f'independent rewrite of the axis handling of {what}', patch=f'neutral_patches/{r}.patch', edits=[],
                  inconclusive_ok=undecided))
# ---- eleventh campaign: correct memory / BLAS rewrites - reductions, contractions and normalisations done block by block into own buffers (last partial block handled), stacks of
#      matrices decomposed blockwise, einsum <-> matmul / broadcast products, in-place arithmetic on own arrays only, ufunc.reduce, np.take / np.compress with explicit axes
for r, what in (('R111', 'mixture_model_utils / cacgmm / cACG'), ('R112', 'cwmm / cbmm / Watson / Bingham / distribution.utils'), ('R113', 'gmm / gaussian / vMF / gcacgmm / vmfcacgmm'),
                ('R114', 'beamformer / beamformer_wrapper / math.solve'), ('R115', 'permutation_alignment / initializers'), ('R116', 'mask_module / sxr_module / si_sdr / utils')):
    # checks that end INCONCLUSIVE (exit 2, no VIOLATION line): a value accumulated / assembled over blocks of an axis is not followed as a value (the term graph carries one
    # iteration), so the formula anchors inside such loops are undecided (DESIGN 10.5, eleventh campaign)
    undecided = {'R111': ['C01', 'C02', 'C06', 'C08', 'C09'], 'R112': ['C02', 'C03', 'C07', 'C08', 'C09'], 'R113': ['C02', 'C03', 'C07', 'C08', 'C09'], 'R114': ['C10', 'C11', 'C12', 'C13'],
                 'R115': ['C01', 'C09', 'C14', 'C15', 'C16'], 'R116': ['C18', 'C19']}.get(r, [])
    C.append(dict(id=f'N22-{r}-blocks', kind='neutral', properties=ALLP, note=f'independent block-wise / in-place rewrite of {what}', patch=f'neutral_patches/{r}.patch', edits=[],
                  inconclusive_ok=undecided))
# ---- memo tables whose stored value is a function of the key (pbv/cachekey.py): a module-level spline cache keyed by everything the spline depends on, an instance memo of the Bingham
#      solver keyed by the exact eigenvalues - the broken twins are the seeds S21 / S54 (key ignores max_concentration), S116 / S229 (rounded key), S237 (id() key), S243 (subscripts only)
C.append(dict(id='N24-R121-correct-caches', kind='neutral', properties=ALLP, note='memo tables keyed by everything the stored value depends on (C09 stops undecided: the spline is returned out of the table, the interp1d call is no longer the returned value)', patch='neutral_patches/R121.patch', edits=[], inconclusive_ok=['C09']))
# ---- twelfth campaign: correct speed / memory optimisations - memo tables keyed by value (einsum paths by subscripts + shapes, finfo.tiny by dtype, selection tables), lru_cache helpers
#      that return immutable values, reused work buffers that are fully written, out= on own arrays, skipped identity transpositions, a peeled first EM iteration, np.copyto into a
#      reshape view of an own buffer, dtype handling by result_type
for r, what in (('R131', 'mixture_model_utils / cacgmm / cACG'), ('R132', 'cwmm / cbmm / Watson / Bingham / distribution.utils'), ('R133', 'gmm / gaussian / vMF / gcacgmm / vmfcacgmm'),
                ('R134', 'beamformer / beamformer_wrapper / math.solve'), ('R135', 'permutation_alignment / initializers'), ('R136', 'mask_module / sxr_module / si_sdr / utils')):
    # checks that end INCONCLUSIVE (exit 2, no VIOLATION line): a value that comes out of a memo (module-level table, new lru_cache helper) is not followed as a value, a peeled EM
    # iteration is not the one-loop form the alternation rules read, a transposition skipped under a condition on mask.ndim is not folded (DESIGN 10.5, twelfth campaign)
    undecided = {'R132': ['C02', 'C03', 'C07'], 'R133': ['C01', 'C02', 'C03', 'C05', 'C06', 'C07', 'C08', 'C09'], 'R134': ['C10'], 'R135': ['C14', 'C15', 'C16'], 'R136': ['C19']}.get(r, [])
    C.append(dict(id=f'N25-{r}-optim', kind='neutral', properties=ALLP, note=f'independent correct optimisations of {what}', patch=f'neutral_patches/{r}.patch', edits=[],
                  inconclusive_ok=undecided))
# N26: campaign 13 ("harden": robustness / API-consistency clean-ups done consistently across functions): helpers extracted from two callers, keepdims / conjugation / floor conventions moved
#      between callee and callers, private keywords renamed at every call site, None sentinels resolved to the old default, internal layouts changed at producer and consumers, namedtuple returns
for r, what in (('R141', 'mixture_model_utils / cacgmm / cACG'), ('R142', 'cwmm / cbmm / Watson / Bingham / distribution.utils'), ('R143', 'gmm / gaussian / vMF / gcacgmm / vmfcacgmm'),
                ('R144', 'beamformer / beamformer_wrapper / math.solve'), ('R145', 'permutation_alignment / initializers'), ('R146', 'mask_module / sxr_module / si_sdr / utils')):
    # R142: the scatter contraction of the Watson / Bingham component trainers moved into a shared helper of distribution.utils (anchor of the estimator rules not found: analysis error, exit 2),
    # the default gap of _remove_duplicate_eigenvalues is a None sentinel; R145: the greedy picks are recorded class-axis-last in a helper and converted by the caller
    undecided = {'R142': ['C02', 'C03', 'C07', 'C08'], 'R145': ['C14', 'C15']}.get(r, [])
    C.append(dict(id=f'N26-{r}-harden', kind='neutral', properties=ALLP, note=f'independent correct cross-function clean-ups of {what}', patch=f'neutral_patches/{r}.patch', edits=[],
                  inconclusive_ok=undecided))
out.write_text(json.dumps(C, indent=1))
print(len(C), 'variants ->', out)
