#!/venv/bin/python
"""Mutation survey of the checker (not part of any registered check; an instrument for finding blind spots).

Generates first-order syntactic mutants of the anchored pb_bss modules with a fixed set of operators, analyses each as an
in-memory overlay with ALL property checks (nothing is executed), and writes a report of the mutants that no check reports.
With --tests the unreported ones are additionally run against the pinned test suite in a scratch worktree, which separates
"unreported and caught by the tests anyway" from "unreported and invisible to the tests" - the latter are the ones to read.

usage: mutate.py [--files a.py,b.py] [--ops op1,op2] [--limit N] [--tests] [--out report.json]
"""
import ast
import copy
import json
import os
import pathlib
import subprocess
import sys
import time
from concurrent.futures import ProcessPoolExecutor

VERIF = pathlib.Path(__file__).resolve().parent.parent
sys.path.insert(0, str(VERIF))
REPO = pathlib.Path(os.environ.get('PBV_REPO', '/repo'))

FILES = [
    'pb_bss/distribution/mixture_model_utils.py', 'pb_bss/distribution/cacgmm.py', 'pb_bss/distribution/complex_angular_central_gaussian.py',
    'pb_bss/distribution/cwmm.py', 'pb_bss/distribution/complex_watson.py', 'pb_bss/distribution/cbmm.py', 'pb_bss/distribution/complex_bingham.py',
    'pb_bss/distribution/gmm.py', 'pb_bss/distribution/gaussian.py', 'pb_bss/distribution/vmfmm.py', 'pb_bss/distribution/von_mises_fisher.py',
    'pb_bss/distribution/gcacgmm.py', 'pb_bss/distribution/vmfcacgmm.py', 'pb_bss/distribution/complex_circular_symmetric_gaussian.py', 'pb_bss/distribution/utils.py',
    'pb_bss/extraction/beamformer.py', 'pb_bss/extraction/beamformer_wrapper.py', 'pb_bss/extraction/mask_module.py', 'pb_bss/math/solve.py',
    'pb_bss/permutation_alignment.py', 'pb_bss/evaluation/sxr_module.py', 'pb_bss/evaluation/module_si_sdr.py',
    'pb_bss/initializer/iid.py', 'pb_bss/initializer/deterministic.py', 'pb_bss/initializer/deflation.py', 'pb_bss/utils.py',
]

CMP = {ast.Gt: ast.GtE, ast.GtE: ast.Gt, ast.Lt: ast.LtE, ast.LtE: ast.Lt}
SWAPCALL = {'maximum': 'minimum', 'minimum': 'maximum', 'amax': 'amin', 'amin': 'amax', 'max': 'min', 'min': 'max', 'argmax': 'argmin', 'argmin': 'argmax',
            'sum': 'mean', 'cumprod': 'cumsum', 'ones': 'zeros', 'ones_like': 'zeros_like'}


def mutants_of(tree):
    """yield (operator name, line, description, mutated tree)"""
    nodes = list(ast.walk(tree))
    for i, n in enumerate(nodes):
        def variant(mutator, op, desc):
            t2 = copy.deepcopy(tree)
            n2 = list(ast.walk(t2))[i]
            if mutator(n2) is not False:
                return (op, getattr(n, 'lineno', 0), desc, t2)
            return None
        if isinstance(n, ast.Compare) and len(n.ops) == 1:
            if type(n.ops[0]) in CMP:
                def m(x):
                    x.ops = [CMP[type(x.ops[0])]()]
                yield variant(m, 'cmp-strict', f'{type(n.ops[0]).__name__} -> {CMP[type(n.ops[0])].__name__}')
            if isinstance(n.ops[0], (ast.Is, ast.IsNot)) and isinstance(n.comparators[0], ast.Constant) and n.comparators[0].value is None:
                def m(x):
                    x.ops = [ast.IsNot() if isinstance(x.ops[0], ast.Is) else ast.Is()]
                yield variant(m, 'none-flip', 'is None <-> is not None')
        if isinstance(n, ast.keyword) and n.arg == 'axis' and isinstance(n.value, (ast.Constant, ast.UnaryOp)):
            try:
                v = ast.literal_eval(n.value)
            except Exception:
                v = None
            if isinstance(v, int) and not isinstance(v, bool):
                for nv in {-1: (-2, 0), -2: (-1, -3), 0: (1, -1), 1: (0, -1), -3: (-2,)}.get(v, ()):
                    def m(x, nv=nv):
                        x.value = ast.Constant(nv)
                    yield variant(m, 'axis', f'axis={v} -> axis={nv}')
        if isinstance(n, ast.keyword) and n.arg == 'keepdims' and isinstance(n.value, ast.Constant) and n.value.value is True:
            def m(x):
                x.value = ast.Constant(False)
            yield variant(m, 'keepdims', 'keepdims=True -> False')
        if isinstance(n, ast.Call) and isinstance(n.func, ast.Attribute):
            if n.func.attr in ('conj', 'conjugate') and not n.args and isinstance(n.func.value, (ast.Name, ast.Attribute, ast.Subscript)):
                pass    # handled through the parent below
            if n.func.attr in SWAPCALL and isinstance(n.func.value, ast.Name) and n.func.value.id in ('np', 'numpy'):
                def m(x):
                    x.func.attr = SWAPCALL[x.func.attr]
                yield variant(m, 'call-swap', f'np.{n.func.attr} -> np.{SWAPCALL[n.func.attr]}')
            if n.func.attr == 'copy' and not n.args and not n.keywords:
                yield ('drop-copy', n.lineno, 'x.copy() -> x', _replace_node(tree, i, lambda x: x.func.value))
            if n.func.attr in ('conj', 'conjugate') and not n.args:
                yield ('drop-conj', n.lineno, 'x.conj() -> x', _replace_node(tree, i, lambda x: x.func.value))
            if n.func.attr in ('conj', 'conjugate', 'copy', 'array') and isinstance(n.func.value, ast.Name) and n.func.value.id == 'np' and len(n.args) == 1 and not n.keywords:
                yield ('drop-' + ('conj' if n.func.attr.startswith('conj') else 'copy'), n.lineno, f'np.{n.func.attr}(x) -> x', _replace_node(tree, i, lambda x: x.args[0]))
        if isinstance(n, ast.BinOp) and isinstance(n.op, (ast.Add, ast.Sub)) and not isinstance(n.left, ast.Constant) and not isinstance(n.right, ast.Constant):
            def m(x):
                x.op = ast.Sub() if isinstance(x.op, ast.Add) else ast.Add()
            yield variant(m, 'plus-minus', f'{type(n.op).__name__} flipped')
        if isinstance(n, ast.BinOp) and isinstance(n.op, (ast.Mult, ast.Div)) and not isinstance(n.left, ast.Constant):
            def m(x):
                x.op = ast.Div() if isinstance(x.op, ast.Mult) else ast.Mult()
            yield variant(m, 'mul-div', f'{type(n.op).__name__} flipped')
        if isinstance(n, ast.Subscript):
            sl = n.slice
            items = sl.elts if isinstance(sl, ast.Tuple) else [sl]
            for j, it in enumerate(items):
                try:
                    v = ast.literal_eval(it)
                except Exception:
                    continue
                if isinstance(v, int) and not isinstance(v, bool) and v in (0, -1, 1, -2):
                    nv = {0: -1, -1: 0, 1: 0, -2: -1}[v]

                    def m(x, j=j, nv=nv):
                        if isinstance(x.slice, ast.Tuple):
                            x.slice.elts[j] = ast.Constant(nv)
                        else:
                            x.slice = ast.Constant(nv)
                    yield variant(m, 'index', f'[{v}] -> [{nv}]')
        if isinstance(n, ast.Attribute) and n.attr in ('real',) and isinstance(n.ctx, ast.Load):
            yield ('drop-real', n.lineno, 'x.real -> x', _replace_node(tree, i, lambda x: x.value))
        if isinstance(n, ast.UnaryOp) and isinstance(n.op, ast.USub) and not isinstance(n.operand, ast.Constant):
            yield ('drop-neg', n.lineno, '-x -> x', _replace_node(tree, i, lambda x: x.operand))
        if isinstance(n, ast.Call) and len(n.args) >= 2 and all(isinstance(a, ast.Name) for a in n.args[:2]) and n.args[0].id != n.args[1].id \
                and not (isinstance(n.func, ast.Attribute) and n.func.attr in ('maximum', 'minimum', 'broadcast_arrays', 'zip', 'add', 'multiply')):
            def m(x):
                x.args[0], x.args[1] = x.args[1], x.args[0]
            yield variant(m, 'arg-swap', f'{ast.unparse(n.func)}({n.args[0].id}, {n.args[1].id}) swapped')


def text_mutants(src, tree):
    """statement- and literal-level mutants made directly on the text: yields (operator, line, description, new source)
       del-stmt      an in-place update / a rebinding of an existing name / an expression statement is replaced by `pass`
       einsum-out    the last two output letters of an einsum subscript are exchanged
       str-option    a string literal compared with `==` / `in [...]` is replaced by a sibling literal of the same test family"""
    lines = src.split('\n')
    funcs = [n for n in ast.walk(tree) if isinstance(n, (ast.FunctionDef, ast.AsyncFunctionDef))]
    for fn in funcs:
        bound = {a.arg for a in fn.args.args + fn.args.kwonlyargs + fn.args.posonlyargs}
        body_stmts = []

        def collect(stmts):
            for st in stmts:
                body_stmts.append(st)
                for f in ('body', 'orelse', 'finalbody'):
                    sub = getattr(st, f, None)
                    if isinstance(sub, list) and sub and not isinstance(st, (ast.FunctionDef, ast.ClassDef)):
                        collect(sub)
                if isinstance(st, ast.Try):
                    for h in st.handlers:
                        collect(h.body)
        collect(fn.body)
        for st in body_stmts:
            kill = False
            what = ''
            if isinstance(st, ast.AugAssign):
                kill, what = True, 'in-place update dropped'
            elif isinstance(st, ast.Assign) and len(st.targets) == 1 and isinstance(st.targets[0], ast.Name) and st.targets[0].id in bound and \
                    any(isinstance(x, ast.Name) and x.id == st.targets[0].id for x in ast.walk(st.value)):
                kill, what = True, f'rebinding of `{st.targets[0].id}` dropped'
            elif isinstance(st, ast.Assign) and len(st.targets) == 1 and isinstance(st.targets[0], ast.Subscript):
                kill, what = True, 'subscript store dropped'
            elif isinstance(st, ast.Expr) and isinstance(st.value, ast.Call):
                kill, what = True, 'call statement dropped'
            if isinstance(st, ast.Assign):
                for t in st.targets:
                    for x in ast.walk(t):
                        if isinstance(x, ast.Name):
                            bound.add(x.id)
            if not kill or isinstance(st, ast.Expr) and isinstance(st.value, ast.Constant):
                continue
            a, b = st.lineno - 1, st.end_lineno
            indent = lines[a][:len(lines[a]) - len(lines[a].lstrip())]
            new = lines[:a] + [indent + 'pass'] + lines[b:]
            yield ('del-stmt', st.lineno, what, '\n'.join(new))
    import re
    for n in ast.walk(tree):
        if isinstance(n, ast.Constant) and isinstance(n.value, str) and '->' in n.value and re.fullmatch(r'[A-Za-z.,\s]*->[A-Za-z.\s]*', n.value) and n.lineno == n.end_lineno:
            out = n.value.split('->')[1]
            letters = [c for c in out if c.isalpha()]
            if len(letters) >= 2:
                o2 = out[::-1].replace(letters[-1], '\0', 1).replace(letters[-2], letters[-1], 1).replace('\0', letters[-2], 1)[::-1]
                if o2 != out:
                    new_val = n.value.split('->')[0] + '->' + o2
                    ln = lines[n.lineno - 1]
                    seg = ln[n.col_offset:n.end_col_offset]
                    if n.value in seg:
                        new_ln = ln[:n.col_offset] + seg.replace(n.value, new_val, 1) + ln[n.end_col_offset:]
                        yield ('einsum-out', n.lineno, f'{n.value!r} -> {new_val!r}', '\n'.join(lines[:n.lineno - 1] + [new_ln] + lines[n.lineno:]))
    # option strings: x == 'a'  /  x in ['a', 'b']  ->  a sibling option of the same function
    for fn in funcs:
        opts = []
        for n in ast.walk(fn):
            if isinstance(n, ast.Compare) and len(n.ops) == 1 and isinstance(n.ops[0], (ast.Eq, ast.In)):
                for c in [n.comparators[0]] + (list(n.comparators[0].elts) if isinstance(n.comparators[0], (ast.List, ast.Tuple)) else []):
                    if isinstance(c, ast.Constant) and isinstance(c.value, str) and c.lineno == c.end_lineno:
                        opts.append(c)
        vals = sorted({c.value for c in opts})
        if len(vals) < 2:
            continue
        for c in opts:
            other = vals[(vals.index(c.value) + 1) % len(vals)]
            ln = lines[c.lineno - 1]
            seg = ln[c.col_offset:c.end_col_offset]
            new_seg = seg.replace(c.value, other, 1)
            if new_seg != seg:
                yield ('str-option', c.lineno, f'{c.value!r} -> {other!r}', '\n'.join(lines[:c.lineno - 1] + [ln[:c.col_offset] + new_seg + ln[c.end_col_offset:]] + lines[c.lineno:]))


def _replace_node(tree, i, pick):
    t2 = copy.deepcopy(tree)
    target = list(ast.walk(t2))[i]
    new = pick(target)
    for parent in ast.walk(t2):
        for f, v in ast.iter_fields(parent):
            if v is target:
                setattr(parent, f, new)
                return t2
            if isinstance(v, list):
                for k, x in enumerate(v):
                    if x is target:
                        v[k] = new
                        return t2
    return None


def splice(src, tree, tree2):
    """text of the file with only the changed top-level expression replaced (comments, formatting and line numbers of everything else stay, which
    matters: shape comments and docstrings are part of what the checks read)"""
    a, b = list(ast.walk(tree)), list(ast.walk(tree2))
    # statement-level expressions (direct expression children of statements) of both trees, in the same order as long as the shapes agree
    def top_exprs(t):
        out = []
        for st in ast.walk(t):
            if isinstance(st, ast.stmt):
                for f, v in ast.iter_fields(st):
                    vs = v if isinstance(v, list) else [v]
                    for x in vs:
                        if isinstance(x, ast.expr):
                            out.append(x)
                        elif isinstance(x, ast.keyword):
                            out.append(x.value)
        return out
    ea, eb = top_exprs(tree), top_exprs(tree2)
    if len(ea) != len(eb):
        return None
    lines = src.split('\n')
    offs = [0]
    for ln in lines:
        offs.append(offs[-1] + len(ln.encode()) + 1)
    data = src.encode()
    for x, y in zip(ea, eb):
        if ast.dump(x) != ast.dump(y):
            if not hasattr(x, 'end_lineno'):
                return None
            start = offs[x.lineno - 1] + x.col_offset
            end = offs[x.end_lineno - 1] + x.end_col_offset
            try:
                text = ast.unparse(y)
            except Exception:
                return None
            if isinstance(x.ctx if hasattr(x, 'ctx') else None, ast.Store):
                new = text
            else:
                new = '(' + text + ')'
            return (data[:start] + new.encode() + data[end:]).decode()
    return None


def line_mutant(src, tree2, lineno):
    """apply the mutant to the text of its statement only (keeps the rest of the file byte-identical)"""
    try:
        new_src = ast.unparse(tree2)
    except Exception:
        return None
    return new_src


def analyse(job):
    rel, op, line, desc, new_src = job
    import importlib
    import warnings
    warnings.simplefilter('ignore')
    from pbv.core import Analysis, Run
    from pbv.model import AnalysisError
    from pbv.props import ALL
    out = dict(file=rel, op=op, line=line, desc=desc, fired=[], errors=[])
    try:
        A = Analysis(str(REPO), {rel: new_src})
    except Exception as e:
        out['errors'].append(f'model: {e}')
        return out
    for pid in ALL:
        mod = importlib.import_module(f'pbv.props.{pid.lower()}')
        run = Run(pid, 'quick', A)
        try:
            mod.check(run)
        except AnalysisError as e:
            out['errors'].append(f'{pid}: {str(e)[:80]}')
        except Exception as e:
            out['errors'].append(f'{pid}: internal {type(e).__name__}: {str(e)[:60]}')
        if any(i['status'] == 'violation' for i in run.items):
            out['fired'].append(pid)
    return out


def main():
    args = sys.argv[1:]

    def opt(name, default=None):
        if name in args:
            return args[args.index(name) + 1]
        return default
    files = opt('--files')
    files = files.split(',') if files else FILES
    ops = opt('--ops')
    ops = set(ops.split(',')) if ops else None
    limit = int(opt('--limit', '0'))
    outp = pathlib.Path(opt('--out', '/tmp/mutation_report.json'))
    jobs = []
    for rel in files:
        src = (REPO / rel).read_text()
        tree = ast.parse(src)
        # analyse the unparsed original as the baseline text (ast.unparse normalises formatting; the checks do not depend on it)
        seen = set()
        for mt in mutants_of(tree):
            if mt is None:
                continue
            op, line, desc, t2 = mt
            if t2 is None or (ops and op not in ops):
                continue
            new_src = splice(src, tree, t2)
            if new_src is None or new_src == src:
                continue
            try:
                ast.parse(new_src)
            except Exception:
                continue
            key = (op, line, desc)
            if key in seen:
                continue
            seen.add(key)
            jobs.append((rel, op, line, desc, new_src))
        for op, line, desc, new_src in text_mutants(src, tree):
            if ops and op not in ops:
                continue
            try:
                ast.parse(new_src)
            except Exception:
                continue
            key = (op, line, desc)
            if key in seen or new_src == src:
                continue
            seen.add(key)
            jobs.append((rel, op, line, desc, new_src))
    if limit:
        import random
        random.Random(1).shuffle(jobs)
        jobs = jobs[:limit]
    print(len(jobs), 'mutants')
    t0 = time.time()
    with ProcessPoolExecutor(max_workers=int(os.environ.get('PBV_JOBS', '16'))) as ex:
        results = list(ex.map(analyse, jobs, chunksize=2))
    for r, j in zip(results, jobs):
        r['src'] = None
    missed = [r for r in results if not r['fired'] and not r['errors']]
    closed = [r for r in results if not r['fired'] and r['errors']]
    print(f'{len(results)} analysed in {time.time() - t0:.0f}s: reported {sum(1 for r in results if r["fired"])}, analysis error only {len(closed)}, unreported {len(missed)}')
    by_op = {}
    for r in results:
        d = by_op.setdefault(r['op'], [0, 0])
        d[0] += 1
        d[1] += bool(r['fired'])
    for k, (n, f) in sorted(by_op.items()):
        print(f'  {k:12s} {f:4d} / {n:4d} reported')
    if '--tests' in args:
        run_tests(missed, jobs)
    outp.write_text(json.dumps(dict(results=results), indent=1))
    print('report ->', outp)


def run_tests(missed, jobs):
    """pinned suite against each unreported mutant, 8 scratch worktrees in parallel"""
    base = json.load(open('/root/.vp/BASELINE.json'))
    src_of = {(j[0], j[1], j[2], j[3]): j[4] for j in jobs}
    slots = []
    for k in range(8):
        wt = f'/tmp/mut-wt-{k}'
        subprocess.run(f'git -C /repo worktree remove --force {wt}', shell=True, capture_output=True)
        subprocess.run(f'git -C /repo worktree add -q --detach {wt} HEAD', shell=True, check=True)
        slots.append(wt)
    from concurrent.futures import ThreadPoolExecutor
    import queue
    q = queue.Queue()
    for s in slots:
        q.put(s)

    def one(r):
        wt = q.get()
        try:
            rel = r['file']
            path = pathlib.Path(wt) / rel
            orig = path.read_text()
            path.write_text(src_of[(rel, r['op'], r['line'], r['desc'])])
            junit = f'{wt}/_junit.xml'
            subprocess.run(f'/venv/bin/python -m pytest -q -p no:cacheprovider --timeout=300 --continue-on-collection-errors --junitxml={junit} > /dev/null 2>&1', shell=True, cwd=wt)
            parsed = f'{wt}/_parsed.json'
            subprocess.run(f'/venv/bin/python {base["parser"]} --kind junit --glob {junit} --out {parsed}', shell=True, capture_output=True)
            try:
                passed = set(json.load(open(parsed))['passed'])
                r['tests_missing'] = len([t for t in base['stable_pass'] if t not in passed])
            except Exception:
                r['tests_missing'] = -1
            path.write_text(orig)
        finally:
            q.put(wt)
        return r
    with ThreadPoolExecutor(max_workers=8) as ex:
        list(ex.map(one, missed))
    for s in slots:
        subprocess.run(f'git -C /repo worktree remove --force {s}', shell=True, capture_output=True)
    surv = [r for r in missed if r.get('tests_missing') == 0]
    print(f'unreported mutants: {len(missed)}; of these the test suite also passes for {len(surv)}')
    for r in surv:
        print(f"  SURVIVOR {r['file']}:{r['line']} [{r['op']}] {r['desc']}")


if __name__ == '__main__':
    main()
