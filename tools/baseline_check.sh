#!/bin/bash
# Runs the repository's pinned test suite (guard off; there are no hooks) and
# compares the passing set with /root/.vp/BASELINE.json stable_pass.
set -u
OUT=$(mktemp -d)
cd /repo && /venv/bin/python -m pytest -ra -q -p no:cacheprovider --timeout=900 \
   --continue-on-collection-errors --junitxml="$OUT/run.junit.xml" >"$OUT/log.txt" 2>&1
/venv/bin/python - "$OUT/run.junit.xml" <<'PY'
import json, sys, subprocess
base = json.load(open('/root/.vp/BASELINE.json'))
outf = sys.argv[1] + '.parsed.json'
out = subprocess.run(["/venv/bin/python", base["parser"], "--kind", "junit", "--glob", sys.argv[1], "--out", outf], capture_output=True, text=True)
try:
    res = json.load(open(outf))
except Exception:
    print('parser failed:', out.stdout[:500], out.stderr[:500]); sys.exit(2)
passed = set(res.get('passed', res.get('pass', [])) if isinstance(res, dict) else [])
missing = [t for t in base['stable_pass'] if t not in passed]
print('passed', len(passed), 'stable_pass', len(base['stable_pass']), 'missing', len(missing))
for m in missing[:20]: print('MISSING', m)
sys.exit(1 if missing else 0)
PY
rc=$?
rm -rf "$OUT"
exit $rc
