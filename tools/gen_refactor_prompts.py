#!/venv/bin/python
"""Writes the prompts for one campaign of independent behaviour-preserving refactorings (tests for false alarms) and creates one
scratch worktree of /repo per patch.   usage: gen_refactor_prompts.py <campaign number, e.g. 4> <outdir> [style]
Patches are expected at /tmp/R<campaign><k>.patch (k = 1..6); they are copied to pbv/neutral_patches/ by hand after checking."""
import pathlib
import subprocess
import sys

GROUPS = {
    1: 'pb_bss/distribution/mixture_model_utils.py, pb_bss/distribution/cacgmm.py, pb_bss/distribution/complex_angular_central_gaussian.py',
    2: 'pb_bss/distribution/cwmm.py, pb_bss/distribution/complex_watson.py, pb_bss/distribution/cbmm.py, pb_bss/distribution/complex_bingham.py (only ComplexBingham.log_pdf/norm/'
       '_remove_duplicate_eigenvalues and ComplexBinghamTrainer.fit/_fit), pb_bss/distribution/utils.py',
    3: 'pb_bss/distribution/gmm.py, pb_bss/distribution/gaussian.py, pb_bss/distribution/vmfmm.py, pb_bss/distribution/von_mises_fisher.py, pb_bss/distribution/gcacgmm.py, '
       'pb_bss/distribution/vmfcacgmm.py, pb_bss/distribution/complex_circular_symmetric_gaussian.py',
    4: 'pb_bss/extraction/beamformer.py, pb_bss/extraction/beamformer_wrapper.py, pb_bss/math/solve.py',
    5: 'pb_bss/permutation_alignment.py, pb_bss/initializer/iid.py, pb_bss/initializer/deterministic.py, pb_bss/initializer/deflation.py',
    6: 'pb_bss/extraction/mask_module.py, pb_bss/evaluation/sxr_module.py, pb_bss/evaluation/module_si_sdr.py, pb_bss/utils.py',
}

STYLES = {
    'idiom': (
        'Apply 12 to 16 independent, realistic, BEHAVIOUR-PRESERVING edits spread over the listed files. Earlier campaigns already covered renaming, operand swaps, '
        'in-place <-> out-of-place, keyword <-> positional, method <-> function form, expand_dims <-> None indexing, flipped branches, guard clauses, helper extraction / inlining, loop '
        'rewrites with zip / enumerate / ndindex / comprehensions, swapaxes <-> moveaxis <-> transpose, clip <-> maximum, x ** 2 <-> x * x, einsum <-> sum / matmul, named constants, '
        'max(key=...). This time write like a DIFFERENT developer with different habits. Use for example:\n'
        '   (imports and names) `from numpy import einsum, maximum` / `from numpy.linalg import norm` style imports used in some functions; `import numpy` spelled out in one function-local '
        'import; local aliases of functions (`_norm = np.linalg.norm`) and of attributes (`shape = y.shape`); tuple unpacking with star (`*lead, n, d = y.shape`) <-> indexing; `y.shape[-1]` '
        '<-> `np.shape(y)[-1]` <-> `y.shape[y.ndim - 1]`; `len(x.shape)` <-> `x.ndim`; `np.ndim(x)`.\n'
        '   (operators) the `@` operator / np.matmul / np.tensordot / np.dot where exactly equivalent to an einsum; `np.conj(x).swapaxes(-1, -2)` helper lambdas; `np.reciprocal`, `np.negative`, '
        '`np.square`, `np.sqrt(x)` <-> `x ** 0.5`; `a / b` <-> `a * (1 / b)` ONLY for scalars; `-x + y` <-> `y - x`; `x * 0.5` <-> `x / 2`; augmented assignment on freshly created locals; '
        '`np.sum(x, axis=(-2, -1))` <-> two sums; `x.sum(-1, keepdims=True)` <-> `x.sum(-1)[..., None]`; `np.mean` <-> `np.sum / n` (when within 1e-12); `np.linalg.norm(x, axis=-1)` <-> '
        '`np.sqrt(np.sum(np.abs(x) ** 2, -1))`; `np.where(c, a, b)` <-> `np.choose` / arithmetic with masks only if exact; `np.full(shape, v)` <-> `np.ones(shape) * v` <-> `np.empty + fill`; '
        '`np.arange(n)[:, None]` <-> `np.arange(n).reshape(-1, 1)`; `np.zeros_like` <-> `np.zeros(x.shape, x.dtype)`; `np.eye(d)[i]` <-> one-hot by assignment; `np.take(x, i, axis)` <-> indexing; '
        '`np.take_along_axis` <-> fancy indexing; slices `x[..., 0:1]` <-> `x[..., :1]` <-> `x[..., [0]]`.\n'
        '   (control flow) conditional expressions <-> if statements; `if a: ... elif b: ...` chains <-> a dict of callables or of constants (dispatch table) when every branch is a simple call; '
        'chained comparisons; `not (a and b)` <-> `not a or not b`; `for` <-> `while` with an explicit counter; accumulate in a list and `np.stack` <-> preallocate and assign; '
        '`try/except/else`; `assert` with reformatted messages; early `continue` in loops; walrus assignments; `isinstance(x, (A, B))` <-> two tests; `x is None or y is None` regrouped; '
        'default arguments computed from `None` sentinels written as `x = default if x is None else x`.\n'
        '   (classes) a method body moved into a module-level function that the method delegates to (keep the method and its signature); `@staticmethod` / `@classmethod` helpers; '
        '`self.attr` read once into a local; dataclass fields accessed via `getattr` only with literal names; `cls(...)` <-> `ClassName(...)` in the same class.'),
}

STYLES['broad'] = (
    'Apply 18 to 24 independent, realistic, BEHAVIOUR-PRESERVING edits, and spread them over AS MANY DIFFERENT FUNCTIONS of the listed files AS POSSIBLE (touch small helpers, '
    'property methods, validation code, rarely used branches and option handling too - at most two edits per function). Mix freely: renaming, reordering of independent statements, '
    'commutative operand swaps, in-place <-> out-of-place on fresh locals, hoisted / inlined temporaries, keyword <-> positional, method <-> function form, None-indexing <-> expand_dims '
    '<-> reshape, keepdims=True <-> [..., None], guard clauses, merged / split conditionals, conditional expressions, extracted or inlined private helpers (also nested functions and '
    'lambdas), loops as for / while / zip / enumerate / comprehension / vectorised assignment, transposes (swapaxes / moveaxis / transpose / .T / einsum letter order), einsum <-> matmul '
    '/ @ / broadcasting / np.sum of a product, clip <-> maximum / minimum <-> np.where, x ** 2 <-> x * x <-> np.square, abs(z) ** 2 <-> z.real ** 2 + z.imag ** 2 <-> (z * z.conj()).real, '
    'np.linalg.norm <-> sqrt of a sum of squares, a / b <-> a * (1 / b) for scalars, algebraically equivalent rearrangements of closed formulas (factor out, expand, common denominator) '
    'when within 1e-12, shape access via unpacking / indexing / np.shape, named constants, dispatch tables, from-imports and local aliases, assert messages as f-strings, type hints, '
    'comments. Invent further ones.')

STYLES['dataflow'] = (
    'Apply 14 to 20 independent, realistic, BEHAVIOUR-PRESERVING edits that RESTRUCTURE HOW VALUES FLOW rather than how single expressions are spelled, spread over as many of '
    'the listed functions as possible. Use for example: option handling moved into small private helpers that return tuples / dicts of settings (dispatch tables keyed by the '
    'option string; helpers with *args / **kwargs; functools.partial); operands collected in a list or tuple and passed with * (np.einsum(op, *operands)); index tuples built '
    'programmatically ((..., *(None,) * k), (slice(None),) * n + (i,)); axis permutations built by helpers or by list.extend / insert; normalisers computed once and '
    'reused, or moved next to their use; divisions written as np.divide(a, b, out=...) on fresh arrays or as multiplication by a reciprocal that is computed once; post-processing '
    '(np.mean over sources, reshapes back, transposes back) applied in a loop / comprehension over several results at once (SDR, SIR, SNR = (f(x) for x in ...)), or through a '
    'local closure; results accumulated in dicts and unpacked at the end; early returns instead of if / else pyramids and the other way round; try / except / else regrouped '
    'without changing what is caught; guard clauses; flags computed once (is_cos = metric == "cos") and tested later; loop bodies moved into nested functions; for-loops over '
    'indices turned into zip / enumerate over the arrays themselves; temporary arrays renamed instead of rebinding the argument name (flat_A = A.reshape(...)); values threaded '
    'through small dataclasses / namedtuples. Keep every normalisation, floor, copy, transpose and reshape that exists - move them, wrap them, but do not drop or duplicate them.')

STYLES['performance'] = (
    'Apply 14 to 20 independent, realistic edits of the kind a maintainer makes under the headings "performance", "memory", "robustness" and "clean-up" - but CORRECT ones, '
    'results unchanged - spread over as many of the listed functions as possible. Use for example: temporaries preallocated once and filled with out= (np.mean / np.sum / np.divide / '
    'np.multiply / np.einsum(..., out=buf)) where the buffer is created with an EXPLICIT floating / complex dtype and the right shape (np.empty(shape, dtype=np.result_type(x, np.float64)) '
    'or similar) so nothing is truncated; in-place arithmetic ONLY on arrays the function itself created (never on arguments or views of arguments); python loops replaced by '
    'vectorised indexing / broadcasting / einsum and the reverse where clearer; repeated sub-expressions computed once; pure helpers (results are ints / tuples / strings, or arrays that '
    'are copied before use) memoised with functools.lru_cache; helper functions extracted for a normalisation that occurs twice, KEEPING the dtype-aware floor '
    '(np.finfo(x.dtype).tiny / eps) exactly as it is; conditional fast paths that are exactly equivalent (e.g. skip a multiplication by an exponent that equals 1, skip a transpose of a '
    'one-dimensional view) with the condition tested on the RIGHT variable; shapes / axis tuples normalised once at the top of a function; model objects rebuilt through their '
    'constructor (never assigned to); explicit conjugate-transposes written as x.conj().swapaxes(-1, -2) / np.conj(np.swapaxes(x, -1, -2)) / einsum letter order; solve(A, b) <-> '
    'inv(A) @ b only where the library already does that; sums over "all but one" kept as sums (do NOT rewrite them as total minus own); distances kept as norms of differences (do '
    'NOT expand |a - b|^2); np.asarray / np.ascontiguousarray inserted where a copy is not needed and .copy() kept wherever the result is modified afterwards; reductions with '
    'keepdims=True <-> explicit None indexing; assert messages, comments and docstrings updated to match. Keep every normalisation, floor, copy, transpose, reshape and guard that '
    'exists - move them, wrap them, but do not drop, duplicate or weaken them.')

STYLES['modern'] = (
    'Apply 14 to 20 independent, realistic, BEHAVIOUR-PRESERVING edits that MODERNISE the code for NumPy 2.x and current Python, spread over as many of the listed functions as possible. '
    'Use for example (check with `/venv/bin/python -c "import numpy as np; print(np.__version__)"` what exists): `x.mT` / `np.matrix_transpose(x)` / `np.linalg.matrix_transpose` for '
    'swapaxes(-1, -2); `np.permute_dims` for transpose; `np.linalg.vecdot(a, b)` (conjugates its FIRST argument - use it only where that is exactly what the code does) / '
    '`np.vecdot`; `np.linalg.vector_norm(x, axis=-1, keepdims=True)` / `np.linalg.matrix_norm`; `np.linalg.outer` only for 1-D operands; `np.linalg.diagonal` / `np.linalg.trace` '
    '(they act on the LAST two axes); `np.concat`; `np.pow`; `np.astype(x, dtype)`; `np.argmax(..., keepdims=True)`; `np.take_along_axis`; `np.broadcast_shapes`; `np.unstack`; '
    '`np.cumulative_sum`; `np.isdtype(x.dtype, "complex floating")` for np.iscomplexobj where exact; `np.finfo(x.dtype).smallest_normal` for `.tiny`; `np.divide(..., where=)`; '
    '`np.errstate` as decorator only if nothing changes; `math.prod` / `math.comb` / `math.perm` / `math.isqrt` for integer shape arithmetic; `operator.index`; the walrus operator; '
    '`match` statements for option strings (`match scaling: case None: ... case "trace": ... case _: raise ValueError`); structural unpacking (`*lead, n, d = y.shape`); '
    'f-strings with `=`; `dataclasses.replace(model, field=value)` to build a changed copy of a model (NOT attribute assignment); `functools.cache` for pure helpers that return '
    'ints / tuples; `itertools.pairwise` / `zip(..., strict=True)` / `itertools.batched` where exactly equivalent; `typing` annotations; `pathlib`-free. Keep every normalisation, floor, '
    'copy, conjugation, transpose and reshape that exists - respell them, do not drop, duplicate or weaken them; keep dtypes and shapes of all results identical.')

STYLES['axes'] = (
    'Apply 14 to 20 independent, realistic, BEHAVIOUR-PRESERVING edits that change HOW AXES, SHAPES, INDICES AND LOOP BOUNDS ARE COMPUTED, spread over as many of the listed functions as '
    'possible - always CORRECTLY. Use for example: one transpose replaced by two or three sequential np.moveaxis / np.swapaxes calls (re-indexing an axis number after another axis has '
    'been moved, with the right condition); negative axis numbers normalised to non-negative ones (axis % x.ndim) or the other way round and used consistently; `x.ndim - 1` for -1; '
    'axis tuples built with range / list arithmetic / sorted / comprehension instead of literals; permutations built by list.remove / insert / append; shapes computed with math.prod, '
    'np.prod(..., dtype=int), functools.reduce, divmod, `-(-n // b)` for ceil, `n // b + (n % b > 0)`; reshape targets written with -1 where exactly one extent can be inferred; '
    'flattening leading axes and restoring them written once as a helper; loops over np.ndindex(*shape) <-> itertools.product(*map(range, shape)) <-> a flat index with np.unravel_index / '
    'divmod; loops over an axis processed in BLOCKS that cover every index exactly once (range(0, n, b) with min(start + b, n), or ceil-many blocks) where the per-index results do not '
    'interact; range(n) <-> range(1, n + 1) with index - 1 <-> reversed order where the order does not matter; enumerate(start=1); slices a[..., :k] / a[..., -k:] computed from lengths; '
    'np.take / np.take_along_axis / np.compress / boolean masks for fancy indexing; np.expand_dims with tuple axes <-> None-indexing <-> reshape; np.squeeze(axis=...) <-> [..., 0]; '
    'keepdims <-> re-inserting the axis; np.broadcast_to / np.broadcast_shapes for explicit broadcasting; np.einsum index letters renamed / reordered consistently. Keep every '
    'normalisation, floor, copy, conjugation and guard that exists; keep dtypes and shapes of all results identical.')

STYLES['blocks'] = (
    'Apply 12 to 18 independent, realistic, BEHAVIOUR-PRESERVING edits of the kind a maintainer makes to SAVE MEMORY or to USE BLAS, spread over as many of the listed functions as '
    'possible - always CORRECTLY. Use for example: a reduction or a contraction over a long axis (frames, bins, stacked matrices) ACCUMULATED BLOCK BY BLOCK into an own zero-initialised '
    'buffer, with the last partial block handled correctly (range(0, n, b) with min(start + b, n) / slices that numpy clips / ceil-many blocks / np.array_split); a stack of matrices '
    'decomposed (eigh, solve, cholesky) block by block into preallocated result arrays of the right dtype; per-frame normalisations done blockwise in place on an OWN copy; an einsum with '
    'two or three operands rewritten as np.matmul / @ / np.tensordot / a broadcast product followed by a sum over the right axis (explicit unit axes written as x[..., :, None, :]), and '
    'the other way round; conjugate transposes written np.conj(np.swapaxes(x, -1, -2)) / x.conj().swapaxes(-1, -2) / x.swapaxes(-1, -2).conj(); in-place arithmetic (+=, *=, /=, '
    'np.multiply(..., out=...)) ONLY on arrays the function allocated itself (np.zeros / np.empty / np.array(..., copy=True) / the result of an arithmetic expression / np.conj(...), '
    'never on an argument or a view of one - remember that ndarray.conj() returns the array ITSELF for real dtypes, so copy first where the input may be real); np.take / np.compress / '
    'boolean masks / np.flatnonzero for selections ALWAYS with an explicit axis; np.broadcast_to for explicit broadcasting (read-only: never written to); running sums carried in a '
    'variable instead of np.sum over a stacked temporary; np.add.reduce / np.sum / math.fsum equivalents; early conversion with np.asarray / np.ascontiguousarray. Keep every '
    'normalisation, floor, copy, conjugation and guard that exists; keep dtypes and shapes of all results identical (allow rounding-level differences of blockwise sums: compare with '
    'rtol=1e-9).')

STYLES['optim'] = (
    'Apply 10 to 16 independent, realistic, BEHAVIOUR-PRESERVING edits of the kind a maintainer makes to make the code FASTER or LEANER - always CORRECTLY, spread over as many of the listed '
    'functions as possible. Use for example: MEMOISATION DONE RIGHT - a module-level dict or a dict created in __init__ that caches an expensive, pure computation under a key that contains '
    'EVERYTHING the cached value depends on, by value (tuples of ints / floats / strings, shapes, x.tobytes() where the content matters; never id(), never rounded keys; never hand out a '
    'cached array that somebody then writes to - return a copy or cache only immutable things such as index tuples, einsum paths, small tables); functools.lru_cache on private helpers with '
    'hashable scalar arguments that return immutable values (tuples, floats); REUSED WORK BUFFERS allocated once per call with np.empty and always FULLY written (or only the written '
    'part read back: buffer[:n]) before they are read; explicit dtype handling that keeps the result dtype: np.result_type / np.promote_types, x.astype(x.dtype, copy=False), '
    'np.asarray(x, dtype=np.result_type(x, np.float64)) - never casting one argument to the dtype of ANOTHER argument; hoisting loop-invariant computations out of loops; early returns / '
    'fast paths for special cases ONLY where the fast path returns exactly what the general path returns (same dtype, same shape, same values: e.g. skip a multiplication by an all-ones '
    'array, skip a transposition that is the identity); replacing np.einsum by an equivalent with optimize=True or a precomputed np.einsum_path keyed by subscripts AND operand shapes; '
    'np.einsum with out= into an own buffer; avoiding temporaries with np.multiply / np.add / np.divide and out= ONLY on arrays the function allocated itself; replacing a Python loop by a '
    'vectorised expression (or the reverse for clarity) where each iteration only touches its own index; np.ascontiguousarray before repeated contractions; views instead of copies where '
    'nothing is written afterwards. Keep every normalisation, floor, copy that protects an argument, conjugation and guard that exists; keep dtypes and shapes of all results identical; '
    'results must be identical for ANY sequence of calls (call every touched function twice with different arguments of the same shape, and with arrays modified in place between the '
    'calls, in your equivalence script).')

STYLES['harden'] = (
    'Apply 8 to 12 realistic, BEHAVIOUR-PRESERVING edits of the kind a maintainer makes in a robustness / API-consistency clean-up - always CORRECTLY and, above all, CONSISTENTLY ACROSS '
    'FUNCTIONS: most edits should touch TWO cooperating sites (a helper and every one of its callers, a producer of a value and every consumer), each adapted so that the whole is '
    'unchanged. Use for example: a private helper extracted from two functions that share a computation (normalisation over the class axis, the Hermitian transpose, the weighted '
    'covariance, the trace normalisation) and called from both; a helper that returned `x.sum(axis, keepdims=True)` now returns the sum WITHOUT keepdims and every caller adds the unit '
    'axis itself (or the reverse); a private keyword renamed in the helper and at all call sites; an internal convention moved from the callee to the caller (the callee used to conjugate / '
    'transpose / clip / floor its argument, now each caller does it just before the call - or the reverse - never both, never neither); an internal array handed over in another layout '
    '(class axis first instead of second) with producer and every consumer adapted; explicit input normalisation that changes nothing for valid inputs (np.asarray on arguments that '
    'are already arrays, np.ascontiguousarray, `x = x[...]` views, `axis = axis % x.ndim`, `int(k)` on integers); guards that cannot trigger for valid inputs (asserts on shapes, '
    'isinstance checks, `if x.size == 0` branches that return exactly what the general path returns); tolerances written as named module constants with the same value; a default '
    'moved from the signature (`eps=1e-10`) to a `None` sentinel resolved to the same value in the body; a tuple return turned into a small namedtuple unpacked the same way by the '
    'callers; `np.errstate` contexts around divisions that already are guarded; dtype handling that keeps the result dtype (np.result_type, astype(x.dtype, copy=False)). Keep every '
    'normalisation, floor, copy that protects an argument, conjugation and guard that exists EXACTLY ONCE on every path; keep dtypes and shapes of all public results identical.')

TEMPLATE = '''You are helping to evaluate a static-analysis based verification tool for the Python library fgnt/pb_bss (EM mixture models, beamformers, permutation alignment, masks, metrics). The tool must NOT raise alarms on code whose behaviour is unchanged. Your job is to act as a careful maintainer who REFACTORS code WITHOUT changing behaviour, so that we can test the tool for false alarms.

Work ONLY inside your own scratch git worktree of the library: {wt} (package directory {wt}/pb_bss). Do NOT read or write anything under /verif or /repo. Do not commit. Never use `git stash` (it is shared between worktrees).

FILES TO REFACTOR: {files}

WHAT TO DO
1. First make a pristine copy for comparison: `mkdir -p /tmp/{tag}-orig && cp -r {wt}/pb_bss /tmp/{tag}-orig/`.
2. {style}
   Every edit must keep results identical up to floating-point rounding (<= 1e-12 relative; prefer bit-identical), keep all public signatures, defaults, shapes, dtypes and raised exception types the same, and must not remove any safety guard, copy, assertion, floor or normalisation. Do not change algorithms, do not mutate caller-owned arrays, do not introduce module-level mutable state. Do not touch files outside the list.
3. Write {wt}/equiv_{tag}.py: for every public function / method you touched, call the ORIGINAL and the REFACTORED version on several random inputs (including leading batch axes, non-default options, K=3 classes, float32/complex64 inputs where the function supports them, and degenerate inputs such as all-zero frames) and assert equality (np.testing.assert_allclose(rtol=1e-10, atol=1e-12) or exact). Simplest: run the same script twice, once with `PYTHONPATH=/tmp/{tag}-orig` from a different cwd, once with cwd={wt}, each time saving outputs with pickle for a fixed seed, then compare. Run it and make sure it passes. If an edit changes results, fix or drop the edit.
4. Confirm the test suite's failing set is unchanged: `cd {wt} && /venv/bin/python -m pytest -q -p no:cacheprovider --timeout=900 --continue-on-collection-errors 2>&1 | grep -E "^(FAILED|ERROR)" | sed 's/ - .*//' | sort > /tmp/{tag}_after.txt` and the same in a pristine state (`git -C {wt} diff -- pb_bss > /tmp/{tag}.patch; git -C {wt} apply -R /tmp/{tag}.patch; ...; git -C {wt} apply /tmp/{tag}.patch`); 46 tests fail on the unchanged library (missing optional dependencies); the two sets must be identical. Remove any `junit` directory pytest leaves behind.

Python is /venv/bin/python (numpy 2.x, scipy, scikit-learn; no network). The library is not pip-installed: import it by running from the worktree directory.

FINAL ANSWER: (a) a numbered list of the edits (file, function, what kind of refactoring), (b) the result of equiv_{tag}.py, (c) the result of the test-suite comparison. Leave the worktree with all edits applied (uncommitted) and save the final patch as /tmp/{tag}.patch (`git -C {wt} diff -- pb_bss > /tmp/{tag}.patch`).
'''


def main():
    camp, outdir = sys.argv[1], pathlib.Path(sys.argv[2])
    style = STYLES[sys.argv[3] if len(sys.argv) > 3 else 'idiom']
    outdir.mkdir(parents=True, exist_ok=True)
    for k, files in GROUPS.items():
        tag = f'R{camp}{k}'
        wt = f'/tmp/rf{camp}-R{k}'
        subprocess.run(['git', '-C', '/repo', 'worktree', 'add', '-f', '--detach', wt, 'HEAD'], check=True, capture_output=True)
        (outdir / f'R{k}.txt').write_text(TEMPLATE.format(wt=wt, files=files, tag=tag, style=style))
        print(tag, wt)


if __name__ == '__main__':
    main()
