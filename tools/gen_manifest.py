#!/venv/bin/python
"""Writes /verif/MANIFEST.json from pbv/props/__init__.py (claimed) and the not-applicable table below."""
import json, pathlib, sys
ROOT = pathlib.Path(__file__).resolve().parent.parent
sys.path.insert(0, str(ROOT))
from pbv.props import META

NOT_APPLICABLE = {
    'C17': 'Numerical end-to-end outcome (>= 99 % correct arg-max, >= 30 dB SIR) of a pipeline that exists only in a notebook, over random scenes: '
           'no construct of the library encodes it, so no sound static rule can decide it; its module-level structural prerequisites are decided under C01, C10, C13, C14.',
}
props = [json.loads(l) for l in open(ROOT / 'properties.jsonl')]
checks = []
na = []
for p in props:
    pid = p['id']
    if pid in META:
        m = META[pid]
        checks.append(dict(
            property_id=pid,
            quick_cmd=f'bin/vcheck {pid} --tier quick',
            thorough_cmd=f'bin/vcheck {pid} --tier thorough',
            evidence_file=f'evidence/{pid}.json',
            replay_cmd_template='bin/vcheck replay {path}',
            engine='pbv',
            level_claimed=dict(category='other', text=m['level'], design_ref=m['design']),
            level_note=m['note'],
            technique=m['technique']))
    else:
        na.append(dict(property_id=pid, reason=NOT_APPLICABLE.get(pid, 'no static check implemented (yet) for this property; not claimed')))
man = dict(
    version=1,
    setup_cmd='true',
    hooks=dict(guard='PB_BSS_VERIF', enable='none needed: every check is a static analysis of the source under /repo/pb_bss; nothing of pb_bss is executed, no hooks exist',
               baseline_off_cmd='/verif/tools/baseline_check.sh', source_commits=[], add_only=True),
    engines=[dict(name='pbv', path='pbv/', serves_properties=sorted(META),
                  kind_free_text='ast-based program model, gated-SSA term graphs, context-sensitive abstract interpreter (const / alias / deps / unit-norm / sign / shape domains), '
                                 'rule families as queries over terms and evaluated contexts')],
    checks=checks,
    notes='Static analysis only (see DESIGN.md). `bin/vcheck all` runs every check in one process; `bin/vcheck selftest` runs the mutant/neutral corpus.',
    not_applicable=na)
(ROOT / 'MANIFEST.json').write_text(json.dumps(man, indent=1))
print('claimed', [c['property_id'] for c in checks], 'not applicable', [n['property_id'] for n in na])
